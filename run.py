#!/venv/bin/python
"""Runner: run.py <Cxx> --tier quick|thorough | --replay <path> | (internal) --shard i/n --out file."""
import argparse
import importlib
import json
import os
import signal
import sys
import traceback

sys.path.insert(0, os.path.dirname(os.path.abspath(__file__)))


def main():
    ap = argparse.ArgumentParser()
    ap.add_argument("prop")
    ap.add_argument("--tier", default=os.environ.get("VERIF_TIER", "quick"), choices=["quick", "thorough"])
    ap.add_argument("--replay")
    ap.add_argument("--shard")
    ap.add_argument("--out")
    ap.add_argument("--sub")
    a = ap.parse_args()
    mod = importlib.import_module("checks." + a.prop.lower())
    try:
        if a.replay:
            sys.exit(mod.replay(a.replay))
        if a.shard:
            i, n = (int(x) for x in a.shard.split("/"))
            import threading

            def _watchdog():
                sys.stderr.write("shard watchdog expired\n")
                sys.stderr.flush()
                os._exit(2)

            wd = threading.Timer(int(os.environ.get("VERIF_SHARD_ALARM", "3300")), _watchdog)
            wd.daemon = True
            wd.start()
            if a.sub:
                res = mod.run_shard(a.tier, i, n, sub=a.sub)
            else:
                res = mod.run_shard(a.tier, i, n)
            with open(a.out, "w") as f:
                json.dump(res.to_json(), f, default=repr)
            sys.stdout.flush()
            os._exit(0)
        rc = mod.main(a.tier)
        sys.stdout.flush()
        sys.exit(rc)
    except SystemExit:
        raise
    except BaseException:  # harness error: never a verdict
        traceback.print_exc()
        sys.stdout.flush()
        sys.exit(2)


if __name__ == "__main__":
    main()
