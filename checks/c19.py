"""C19 - Jupyter kernel: lossless ZMTP framing, authenticated requests, correlated replies.

Part "frame"  : ZmqSocket.send / send_multipart / send_cmd  ->  bytes  ->  fragmented in-memory StreamReader
                ->  ZmqSocket.recv / recv_multipart; also reference-encoded bytes (incl. non-canonical long
                headers) -> recv.  Pure, no Home Assistant needed.
Part "session": a real Kernel (created like __init__.jupyter_kernel_start does) on in-memory shell / iopub
                streams; requests are built, signed, corrupted and framed by an independent client.
"""

from __future__ import annotations

import ast
import asyncio
import copy
import hashlib
import json
import re

from vlib import core, l1
from vlib import kernelharness as kh
from vlib.modelcheck import ModelCheck

PROP = "C19"

# ------------------------------------------------------------------------------------------
# Genuine defects found by this check.  While a constant is True the check skips exactly the
# input shape that shows the defect (and counts it in the class "known-shape:<name>"); set it
# to False to see the violation.
# ------------------------------------------------------------------------------------------

def _open(fid):
    """A shape is skipped only while its finding is listed as open in known_findings.json."""
    return any(f["id"] == fid for f in core.open_findings("C19"))


# shell_listen treats the ValueError of a bad signature like any other exception: it leaves its read
# loop and queues "shutdown", so every later valid request on that connection is never answered.
# Skipped shape: listen mode, any request after the first invalid one.
KNOWN_FINDING_INVALID_REQUEST_STOPS_LISTENER = _open('C19-invalid-request-stops-listener')

# Only the success path of execute_request waits for the housekeeping task before "idle".  If a cell
# prints and then raises, and the stream writer's drain() does not yield (asyncio's does not unless the
# transport is paused), the stdout stream message is published after the "idle" status.
# Skipped shape: drain_yields false, cell with stdout that ends in an exception: position of stdout.
KNOWN_FINDING_STDOUT_AFTER_IDLE_ON_ERROR = _open('C19-stdout-after-idle-on-error')

# deserialize_wire_msg signs every frame after the signature, so a correctly signed request that
# carries extra (unsigned, per the Jupyter wire protocol) buffer frames is rejected.
# Skipped shape: requests with buffers are not generated.
KNOWN_FINDING_BUFFERS_COVERED_BY_SIGNATURE = _open('C19-buffers-covered-by-signature')

CASE_TIMEOUT = 30.0  # real seconds; only a genuine hang (busy loop at EOF) ever gets near it

# ------------------------------------------------------------------------------------------
# part 1: frames
# ------------------------------------------------------------------------------------------

PATTERNS = ["rand", "zero", "ff", "flags"]


def frame_bytes(f):
    if "hex" in f:
        return bytes.fromhex(f["hex"])
    n, pat = f["len"], f.get("pat", "rand")
    if pat == "zero":
        return b"\x00" * n
    if pat == "ff":
        return b"\xff" * n
    if pat == "flags":
        unit = bytes([0, 1, 2, 3, 4, 6, 0xFF, 0, 0, 0, 0, 0, 0, 1, 0])
        return (unit * (n // len(unit) + 1))[:n]
    return hashlib.shake_256(str(f.get("seed", 0)).encode()).digest(n)


def frame_len(f):
    return len(f["hex"]) // 2 if "hex" in f else f["len"]


def ref_layout(ops, all_long=False):
    lay = kh.Layout()
    for op in ops:
        fl = all_long or bool(op.get("long"))
        if op["op"] == "multipart":
            lay.add_multipart([frame_bytes(f) for f in op["frames"]], force_long=fl)
        elif op["op"] == "send":
            lay.add_multipart([b"", frame_bytes(op["frame"])], force_long=fl)
        else:
            lay.add_command(op["name"].encode(), [(k.encode(), v.encode()) for k, v in op["params"]], force_long=fl)
    return lay


def digest(b):
    return [len(b), hashlib.sha1(b).hexdigest()[:12]]


def expected_reads(ops):
    out = []
    for op in ops:
        if op["op"] == "multipart":
            frames = [frame_bytes(f) for f in op["frames"]]
        elif op["op"] == "send":
            frames = [b"", frame_bytes(op["frame"])]
        else:
            continue
        if op.get("rm", True):
            out.append([digest(f) for f in frames])
        else:
            out.append(digest(b"".join(frames)))
    return out


async def run_frames(case):
    from custom_components.pyscript.jupyter_kernel import ZmqSocket

    ops = case["ops"]
    enc = case["enc"]
    exp = {"reads": expected_reads(ops), "tail": "eof"}
    obs = {"reads": [], "tail": None}
    canon = ref_layout(ops, all_long=False) if enc == "kernel" else ref_layout(ops)
    data = bytes(canon.data)
    if enc == "kernel":
        exp["wire_canonical"] = True
        wire = kh.Wire()
        sock = ZmqSocket(None, kh.FakeWriter(wire, "x"), "ROUTER")
        try:
            for op in ops:
                if op["op"] == "multipart":
                    await sock.send_multipart([frame_bytes(f) for f in op["frames"]])
                elif op["op"] == "send":
                    await sock.send(frame_bytes(op["frame"]))
                else:
                    await sock.send_cmd(op["name"], [list(p) for p in op["params"]])
            written = wire.channel_bytes("x")
            obs["wire_canonical"] = written == data
            if written != data:
                k = next((i for i, (a, b) in enumerate(zip(written, data)) if a != b), min(len(written), len(data)))
                obs["wire_diff_at"] = k
            data = written
        except Exception as e:  # noqa: BLE001
            obs["wire_canonical"] = "send-exception:" + type(e).__name__
            return exp, obs, {"nontrivial": False, "short_reads": 0}
    cuts = list(range(1, len(data))) if case["cuts"] == "all" else [c for c in case["cuts"] if 0 < c < len(data)]
    reader = kh.CountingReader()
    rsock = ZmqSocket(reader, None, "ROUTER")
    feeder = asyncio.create_task(kh.feed_fragments(reader, data, cuts, eof=True))

    async def consume():
        for op in ops:
            if op["op"] == "cmd":
                continue
            if op.get("rm", True):
                parts = await rsock.recv_multipart()
                obs["reads"].append([digest(bytes(p)) for p in parts])
            else:
                obs["reads"].append(digest(bytes(await rsock.recv())))
        try:
            extra = await rsock.recv_multipart()
            obs["tail"] = ["extra-message", [digest(bytes(p)) for p in extra]]
        except EOFError:
            obs["tail"] = "eof"

    try:
        await asyncio.wait_for(consume(), CASE_TIMEOUT)
    except asyncio.TimeoutError:
        obs["tail"] = "hang"
    except EOFError:
        obs["tail"] = "premature-eof"
    except Exception as e:  # noqa: BLE001
        obs["tail"] = "recv-exception:" + type(e).__name__
    finally:
        if not feeder.done():
            feeder.cancel()
        try:
            await feeder
        except BaseException:  # noqa: BLE001
            pass
    special = any(ln == 0 or ln >= 256 or (end - start) == 9 for start, end, ln in canon.headers)
    split = any(start < c < end for c in cuts for start, end, _ in canon.headers)
    return exp, obs, {"nontrivial": special and split, "short_reads": reader.short_reads, "special": special, "split": split,
                      "total": len(data)}


LEN_WEIGHTS = [(4, 0), (2, 1), (2, 254), (4, 255), (4, 256), (2, 257), (2, 65535), (2, 65536), (8, "small"), (2, "mid")]


def gen_frame(R, budget):
    ln = R.weighted(LEN_WEIGHTS)
    if ln == "small":
        ln = R.int(2, 40)
    elif ln == "mid":
        ln = R.int(258, 3000)
    if ln >= 65535:
        if budget[0] <= 0:
            ln = R.choice([255, 256])
        else:
            budget[0] -= 1
    if ln <= 48:
        from hypothesis import strategies as st

        return {"hex": R.draw(st.binary(min_size=ln, max_size=ln)).hex()}
    return {"len": ln, "seed": R.int(0, 10**6), "pat": R.weighted([(5, "rand"), (1, "zero"), (1, "ff"), (2, "flags")])}


CMD_NAMES = ["READY", "ERROR", "X", "SUBSCRIBE", "A" * 40]
CMD_KEYS = ["Socket-Type", "Identity", "K", "Resource"]


def gen_cmd(R):
    if R.bool(1, 4):
        # command body of exactly 254 / 255 / 256 bytes: the boundary between the short and the long command header
        name, key = R.choice(CMD_NAMES), R.choice(CMD_KEYS)
        vlen = R.choice([254, 255, 255, 256]) - (1 + len(name)) - (1 + len(key) + 4)
        return {"op": "cmd", "name": name, "params": [[key, "v" * vlen]]}
    params = []
    for _ in range(R.weighted([(2, 0), (3, 1), (3, 2), (1, 4)])):
        vlen = R.weighted([(3, 0), (4, R.int(1, 12)), (1, 200), (1, 255), (1, 256), (1, 700)])
        params.append([R.choice(CMD_KEYS), "".join(R.choice("abROUTERxyz-_0189") for _ in range(min(vlen, 6))) + "v" * max(0, vlen - 6)])
    return {"op": "cmd", "name": R.choice(CMD_NAMES), "params": params}


def gen_cuts(R, ops, enc):
    lay = ref_layout(ops, all_long=False) if enc == "kernel" else ref_layout(ops)
    total = len(lay.data)
    mode = R.weighted([(1, "none"), (3, "single"), (4, "headers"), (4, "random"), (3, "all")])
    if mode == "all" and total > 700:
        mode = "headers"
    if mode == "none" or total < 2:
        return []
    if mode == "all":
        return "all"
    hdr_pos = sorted({p for s, e, _ in lay.headers for p in range(max(1, s), min(total - 1, e + 1) + 1)})
    if mode == "single":
        if hdr_pos and R.bool(2, 3):
            return [R.choice(hdr_pos)]
        return [R.int(1, total - 1)]
    cuts = set()
    if mode == "headers":
        if len(hdr_pos) > 120:
            hdr_pos = [p for p in hdr_pos if R.bool(1, 2)]
        cuts.update(hdr_pos)
    for _ in range(R.int(1, 30)):
        cuts.add(R.int(1, total - 1))
    return sorted(cuts)


def gen_frames_case(R):
    enc = R.weighted([(3, "kernel"), (2, "ref")])
    ops = []
    budget = [2]
    for _ in range(R.weighted([(5, 1), (3, 2), (2, 3)])):
        if R.bool(1, 4):
            c = gen_cmd(R)
            if enc == "ref":
                c["long"] = R.bool(1, 3)
            ops.append(c)
        k = R.weighted([(5, "multipart"), (2, "send")])
        if k == "multipart":
            op = {"op": "multipart", "frames": [gen_frame(R, budget) for _ in range(R.int(1, 6))], "rm": R.bool(3, 4)}
        else:
            op = {"op": "send", "frame": gen_frame(R, budget), "rm": R.bool()}
        if enc == "ref":
            op["long"] = R.bool(1, 3)
        ops.append(op)
    return {"part": "frame", "enc": enc, "ops": ops, "cuts": gen_cuts(R, ops, enc)}


def hexf(b):
    return {"hex": bytes(b).hex()}


SMALL_CATALOGUE = [
    [{"op": "multipart", "frames": [hexf(b"")]}],
    [{"op": "multipart", "frames": [hexf(b""), hexf(b"")]}],
    [{"op": "multipart", "frames": [hexf(b"a")]}],
    [{"op": "multipart", "frames": [hexf(b""), hexf(b"ab"), hexf(b"")]}],
    [{"op": "multipart", "frames": [hexf(b"\x00")]}],
    [{"op": "multipart", "frames": [hexf(b"\x01\x02"), hexf(b"\x04\x02\x00")]}],
    [{"op": "multipart", "frames": [hexf(b"\x02\x00\x00\x00\x00\x00\x00\x00\x01")]}],
    [{"op": "multipart", "frames": [hexf(b"id"), hexf(b"<IDS|MSG>"), hexf(b""), hexf(b"{}")]}],
    [{"op": "multipart", "frames": [hexf(b"ab"), hexf(b"c")], "rm": False}],
    [{"op": "send", "frame": hexf(b"")}],
    [{"op": "send", "frame": hexf(b"xy")}],
    [{"op": "send", "frame": hexf(b"ping"), "rm": False}],
    [{"op": "cmd", "name": "READY", "params": [["Socket-Type", "REQ"]]}, {"op": "multipart", "frames": [hexf(b"a"), hexf(b"")]}],
    [{"op": "cmd", "name": "X", "params": []}, {"op": "send", "frame": hexf(b"q"), "rm": False}],
    [{"op": "cmd", "name": "X", "params": [["K", ""]]}, {"op": "cmd", "name": "Y", "params": []}, {"op": "multipart", "frames": [hexf(b"")]}],
    [{"op": "multipart", "frames": [hexf(b"a")]}, {"op": "multipart", "frames": [hexf(b""), hexf(b"b")]}],
    [{"op": "multipart", "frames": [hexf(b"")]}, {"op": "send", "frame": hexf(b"")}, {"op": "multipart", "frames": [hexf(b"z")], "rm": False}],
]


def exhaustive_frame_cases():
    cases = []
    for ops in SMALL_CATALOGUE:
        for enc, all_long in (("kernel", False), ("ref", False), ("ref", True)):
            ops2 = copy.deepcopy(ops)
            if all_long:
                for op in ops2:
                    op["long"] = True
            total = len(ref_layout(ops2).data) if enc == "ref" else len(ref_layout(ops2, all_long=False).data)
            if total > 40:
                continue
            for cuts in [[]] + [[p] for p in range(1, total)] + ["all"]:
                cases.append({"part": "frame", "enc": enc, "ops": ops2, "cuts": cuts})
    return cases


# ------------------------------------------------------------------------------------------
# part 2: sessions
# ------------------------------------------------------------------------------------------

SIGNED = ["header", "parent", "metadata", "content"]
REPLY_TYPE = {
    "execute_request": "execute_reply",
    "complete_request": "complete_reply",
    "is_complete_request": "is_complete_reply",
    "kernel_info_request": "kernel_info_reply",
    "comm_info_request": "comm_info_reply",
    "history_request": "history_reply",
}
IS_COMPLETE_KNOWN = {
    "1+2": {"status": "complete"},
    "x = 3": {"status": "complete"},
    "print('a')": {"status": "complete"},
    "a": {"status": "complete"},
    "if a:": {"status": "incomplete", "indent": "    "},
    "def f():": {"status": "incomplete", "indent": "    "},
    "for i in range(3):": {"status": "incomplete", "indent": "    "},
    "while True:  # go": {"status": "incomplete", "indent": "    "},
    "1 +* 2": {"status": "invalid"},
    ")(": {"status": "invalid"},
    "x = = 2": {"status": "invalid"},
}
IS_COMPLETE_OTHER = ["x = (1,", "'''abc", "def f():\n    return 1", "if a:\n    b = 1\n", ""]
NAMES = ["a", "b", "acc", "total", "beta"]
COMPLETION_RE = re.compile(r".*?([\w.]*)$", re.DOTALL)


def request_header(i, op):
    return {
        "msg_id": f"req-{i:03d}",
        "username": "user" if op.get("ascii", True) else "üser✓",
        "session": "client-session-1",
        "date": "2024-06-12T10:00:00.000000",
        "msg_type": op["t"],
        "version": "5.3",
    }


def request_frames(key, i, op):
    """Final wire frames of request i (after the generated corruption)."""
    header = request_header(i, op)
    ids = [bytes.fromhex(x) for x in op.get("ids", [])]
    ascii_only = op.get("ascii", True)
    c = op.get("corrupt")
    sign_key = key
    if c and c["kind"] == "key":
        sign_key = c["key"].encode("utf-8")
    frames = kh.build_request(sign_key, header, op.get("parent", {}), op.get("metadata", {}), op["content"], ids, ascii_only)
    frames += [bytes.fromhex(b) for b in op.get("buffers", [])]
    d = len(ids)
    pos = {"delim": d, "sig": d + 1, "header": d + 2, "parent": d + 3, "metadata": d + 4, "content": d + 5}
    if c is None or c["kind"] == "key":
        return frames, header
    if c["kind"] == "flip":
        k = pos[c["target"]]
        fr = bytearray(frames[k])
        bit = c["bit"] % (8 * len(fr))
        fr[bit // 8] ^= 1 << (bit % 8)
        frames[k] = bytes(fr)
    elif c["kind"] == "flipid":
        if ids:
            k = c["idx"] % len(ids)
            fr = bytearray(frames[k])
            if fr:
                bit = c["bit"] % (8 * len(fr))
                fr[bit // 8] ^= 1 << (bit % 8)
                if bytes(fr) != kh.DELIM:
                    frames[k] = bytes(fr)
    elif c["kind"] == "sig":
        s = frames[pos["sig"]]
        how = c["how"]
        if how == "empty":
            s = b""
        elif how == "trunc":
            s = s[:-1]
        elif how == "upper":
            s = s.upper()
        elif how == "zeros":
            s = b"0" * len(s)
        elif how == "other":
            s = kh.sign(key, [frames[pos["header"]], frames[pos["parent"]], frames[pos["metadata"]], b'{"code": "pass"}'])
        elif how == "extended":
            s = s + b"0"
        frames[pos["sig"]] = s
    elif c["kind"] == "drop":
        del frames[pos[c["target"]]]
    elif c["kind"] == "swap":
        a, b = pos[c["a"]], pos[c["b"]]
        frames[a], frames[b] = frames[b], frames[a]
    return frames, header


class CellModel:
    """CPython evaluation of the executed cells, in order."""

    def __init__(self):
        self.ns = {}
        self.count = 1

    def user_globals(self):
        # dunder names (CPython stores a leading string literal as __doc__) are not compared on either side
        return {k: repr(v) for k, v in self.ns.items() if k != "print" and not (k.startswith("__") and k.endswith("__"))}

    def execute(self, code):
        out = []
        self.ns["print"] = lambda x: out.append(str(x) + "\n")
        try:
            tree = ast.parse(code, "<cell>")
        except SyntaxError as e:
            return {"status": "error", "ename": "SyntaxError", "evalue": str(e), "stdout": "", "result": None}
        val = None
        try:
            body = tree.body
            if body and isinstance(body[-1], ast.Expr):
                exec(compile(ast.Module(body[:-1], []), "<cell>", "exec"), self.ns)  # noqa: S102
                val = eval(compile(ast.Expression(body[-1].value), "<cell>", "eval"), self.ns)  # noqa: S307
            else:
                exec(compile(tree, "<cell>", "exec"), self.ns)  # noqa: S102
        except Exception as e:  # noqa: BLE001
            return {"status": "error", "ename": type(e).__name__, "evalue": str(e), "stdout": "".join(out), "result": None}
        return {"status": "ok", "stdout": "".join(out), "result": None if val is None else repr(val)}


def completion_root(code, pos):
    m = COMPLETION_RE.match(code[0:pos].lower())
    return m[1].lower() if m else ""


def expected_for(op, header, ids, model, n_iopub):
    """Expected summary of a valid request (mutates the model)."""
    t = op["t"]
    content = op["content"]
    iopub = [["status", "busy"]]
    stdout = ""
    reply = {}
    if t == "execute_request":
        r = model.execute(content["code"])
        cnt = model.count
        iopub.append(["execute_input", cnt, True])
        stdout = r["stdout"]
        if r["status"] == "ok":
            if r["result"] is not None:
                iopub.append(["execute_result", cnt, r["result"]])
            reply = {"status": "ok", "execution_count": cnt}
        else:
            iopub.append(["error", r["ename"], r["evalue"]])
            reply = {"status": "error", "execution_count": cnt, "ename": r["ename"], "evalue": r["evalue"]}
        if content.get("store_history", True):
            model.count += 1
    elif t == "complete_request":
        root = completion_root(content["code"], content["cursor_pos"])
        reply = {"status": "ok", "cursor": [content["cursor_pos"] - len(root), content["cursor_pos"]], "matches_ok": True}
    elif t == "is_complete_request":
        reply = dict(IS_COMPLETE_KNOWN[content["code"]]) if content["code"] in IS_COMPLETE_KNOWN else {"status_valid": True}
    elif t == "kernel_info_request":
        reply = {"protocol_5": True, "language_info": True}
    elif t == "comm_info_request":
        reply = {"comms": {}}
    elif t == "history_request":
        reply = {"history": []}
    iopub.append(["status", "idle"])
    return {
        "valid": True,
        "hang": False,
        "shell": [{"type": REPLY_TYPE[t], "ids": [x.hex() for x in ids], "sig_ok": True, "parent_ok": True, "hdr_ok": True, "content": reply}],
        "iopub": [iopub] * n_iopub,
        "stdout": [stdout] * n_iopub,
        "stdout_bracketed": True,
        "order_ok": True,
        "stray": 0,
        "globals": model.user_globals(),
    }


def summarize_reply(op, m, header, seen_ids, model_names):
    if m.get("malformed"):
        return {"malformed": True}
    h = m["header"]
    hdr_ok = (
        all(isinstance(h.get(k), str) and h.get(k) for k in ("msg_id", "session", "username", "msg_type", "version", "date"))
        and h["msg_id"] not in seen_ids
    )
    seen_ids.add(h.get("msg_id"))
    c = m["content"]
    t = op["t"]
    if t == "execute_request":
        content = {"status": c.get("status"), "execution_count": c.get("execution_count")}
        if c.get("status") == "error":
            content["ename"] = c.get("ename")
            content["evalue"] = c.get("evalue")
    elif t == "complete_request":
        root = completion_root(op["content"]["code"], op["content"]["cursor_pos"])
        matches = c.get("matches")
        ok = isinstance(matches, list) and matches == sorted(matches)
        if ok and "." not in root:
            ok = all(isinstance(x, str) and x.lower().startswith(root) for x in matches)
            ok = ok and all(n in matches for n in model_names if n.lower().startswith(root))
        content = {"status": c.get("status"), "cursor": [c.get("cursor_start"), c.get("cursor_end")], "matches_ok": ok}
    elif t == "is_complete_request":
        if op["content"]["code"] in IS_COMPLETE_KNOWN:
            content = {k: c[k] for k in ("status", "indent") if k in c}
        else:
            content = {"status_valid": c.get("status") in ("complete", "incomplete", "invalid", "unknown")}
    elif t == "kernel_info_request":
        content = {"protocol_5": str(c.get("protocol_version", "")).startswith("5."), "language_info": isinstance(c.get("language_info"), dict)}
    else:
        content = c
    return {"type": h.get("msg_type"), "ids": m["ids"], "sig_ok": m["sig_ok"], "parent_ok": m["parent"] == header, "hdr_ok": bool(hdr_ok),
            "content": content}


def summarize_iopub(op, msgs, header, session_name, seen_ids):
    """-> (ordered essentials without streams, stdout text, stdout inside busy..idle, stray count, busy idx, idle idx)"""
    seq, text, stray = [], "", 0
    busy_gi = idle_gi = None
    bracket = True
    state = "before"
    for gi, m in msgs:
        if m.get("malformed") or not m["sig_ok"] or m["parent"] != header:
            stray += 1
            continue
        h, c = m["header"], m["content"]
        if h.get("msg_id") in seen_ids:
            stray += 1
        seen_ids.add(h.get("msg_id"))
        t = h.get("msg_type")
        if t == "stream":
            if c.get("name") != "stdout":
                stray += 1
            text += c.get("text", "")
            if state != "busy":
                bracket = False
            continue
        if t == "status":
            st = c.get("execution_state")
            seq.append(["status", st])
            if st == "busy" and busy_gi is None:
                busy_gi, state = gi, "busy"
            elif st == "idle":
                idle_gi, state = gi, "idle"
        elif t == "execute_input":
            seq.append(["execute_input", c.get("execution_count"), c.get("code") == op["content"].get("code")])
        elif t == "execute_result":
            seq.append(["execute_result", c.get("execution_count"), (c.get("data") or {}).get("text/plain")])
        elif t == "error":
            seq.append(["error", c.get("ename"), str(c.get("evalue")).replace(session_name, "<cell>")])
        else:
            seq.append([t])
    return seq, text, bracket, stray, busy_gi, idle_gi


async def run_session(case):
    key = case["key"]
    n_iopub = case.get("n_iopub", 1)
    mode = case["mode"]
    exp_list, obs_list = [], []
    info = {"statuses": [], "skipped_shapes": []}
    model = CellModel()
    seen_ids = set()
    seen_pub = [set() for _ in range(n_iopub)]
    n_valid = n_invalid = 0
    async with kh.Session(key, mode=mode, drain_yields=case.get("drain_yields", False), n_iopub=n_iopub) as s:
        hs = {"iopub_greeting": all(ch.greeting_ok() for _, _, ch in s.iopub),
              "iopub_ready": all([c[1:] for c in ch.commands()] == [(b"READY", [(b"Socket-Type", b"PUB")])] for _, _, ch in s.iopub)}
        hs_exp = {"iopub_greeting": True, "iopub_ready": True}
        if mode == "listen":
            hs["shell_greeting"] = s.shell.greeting_ok()
            hs["shell_ready"] = [c[1:] for c in s.shell.commands()] == [(b"READY", [(b"Socket-Type", b"ROUTER"), (b"Identity", b"")])]
            hs_exp.update({"shell_greeting": True, "shell_ready": True})
        exp_list.append(hs_exp)
        obs_list.append(hs)
        for ch in [s.shell] + [c for _, _, c in s.iopub]:
            ch.new_messages()
        stopped = False
        for i, op in enumerate(case["ops"]):
            if stopped:
                info["skipped_shapes"].append("listener-stopped")
                break
            if s.dead:
                obs_list.append({"i": i, "hang": True, "undeliverable": True})
                break
            frames, header = request_frames(s.key, i, op)
            valid = kh.verify(s.key, frames)
            sp = kh.split_wire(frames)
            if valid and sp[3] and KNOWN_FINDING_BUFFERS_COVERED_BY_SIGNATURE:
                info["skipped_shapes"].append("buffers")
                continue
            if valid:
                # the header the kernel must echo is the one actually on the wire
                header = json.loads(sp[2][0].decode("utf-8"))
            lay = kh.Layout()
            lay.add_multipart(frames, force_long=bool(op.get("long")))
            data = bytes(lay.data)
            cuts = [c % len(data) for c in op.get("cuts", [])]
            status = await s.deliver(data, cuts)
            info["statuses"].append(status)
            shell_msgs = s.shell.new_messages()
            iopub_msgs = [ch.new_messages() for _, _, ch in s.iopub]
            hang = "timeout" in status or "no-quiescence" in status
            if valid:
                n_valid += 1
                before_names = [k for k in model.user_globals()]
                e = expected_for(op, header, sp[0], model, n_iopub)
                o = {"valid": True, "hang": hang}
                o["shell"] = [summarize_reply(op, m, header, seen_ids, before_names) for _, m in shell_msgs]
                seqs, texts, brackets, strays, order = [], [], [], 0, True
                for sub, msgs in enumerate(iopub_msgs):
                    seq, text, bracket, stray, busy_gi, idle_gi = summarize_iopub(op, msgs, header, s.name, seen_pub[sub])
                    seqs.append(seq)
                    texts.append(text)
                    brackets.append(bracket)
                    strays += stray
                    if len(shell_msgs) == 1:
                        rgi = shell_msgs[0][0]
                        order = order and busy_gi is not None and idle_gi is not None and busy_gi < rgi < idle_gi
                o["iopub"] = seqs
                o["stdout"] = texts
                o["stdout_bracketed"] = all(brackets)
                o["order_ok"] = order
                o["stray"] = strays
                o["globals"] = s.user_globals()
                for sh in o["shell"]:
                    c = sh.get("content")
                    if isinstance(c, dict) and isinstance(c.get("evalue"), str):
                        c["evalue"] = c["evalue"].replace(s.name, "<cell>")
                if (
                    KNOWN_FINDING_STDOUT_AFTER_IDLE_ON_ERROR
                    and not case.get("drain_yields", False)
                    and op["t"] == "execute_request"
                    and e["stdout"][0]
                    and e["shell"][0]["content"].get("status") == "error"
                ):
                    info["skipped_shapes"].append("stdout-after-idle-on-error")
                    o["stdout_bracketed"] = e["stdout_bracketed"]
            else:
                n_invalid += 1
                e = {"valid": False, "hang": False, "shell": [], "iopub": [[] for _ in range(n_iopub)], "globals": model.user_globals()}
                o = {"valid": False, "hang": hang, "shell": [[gi, m.get("header", {}).get("msg_type")] for gi, m in shell_msgs],
                     "iopub": [[m.get("header", {}).get("msg_type") for _, m in msgs] for msgs in iopub_msgs], "globals": s.user_globals()}
                if mode == "listen":
                    if KNOWN_FINDING_INVALID_REQUEST_STOPS_LISTENER:
                        stopped = True
                    else:
                        e["listener_alive"] = True
                        o["listener_alive"] = s.listener_alive()
            e["i"] = o["i"] = i
            exp_list.append(e)
            obs_list.append(o)
        for ch in [s.shell] + [c for _, _, c in s.iopub]:
            if ch.error:
                obs_list.append({"undecodable": ch.name, "error": ch.error})
        info["handler_errors"] = s.handler_errors
    info["n_valid"], info["n_invalid"] = n_valid, n_invalid
    info["nontrivial"] = n_valid >= 1 and n_invalid >= 1
    return exp_list, obs_list, info



# ---- overlapping requests on two shell connections ----------------------------------------


def gen_overlap_case(R):
    """Connection A runs a cell that suspends (task.sleep); while it sleeps, connection B sends 1-3 quick requests."""
    val = R.choice(["7 * 6", "'a' + 'b'", "[1, 2] + [3]", "w = 5", "raise ValueError('late')", "undefined_name_zz", "print('out')\n5", "print('p1')\nprint('p2')",
                    "print('before')\nraise KeyError('k')"])
    b_ops = []
    for _ in range(R.int(1, 3)):
        t = R.choice(["kernel_info_request", "complete_request", "is_complete_request", "comm_info_request"])
        content = {"kernel_info_request": {}, "complete_request": {"code": "pri", "cursor_pos": 3}, "is_complete_request": {"code": "x = 1"},
                   "comm_info_request": {}}[t]
        b_ops.append({"t": t, "content": content, "ids": [R.choice(["b1", "beef", "0b0b0b"])], "ascii": True})
    if R.bool(1, 3):
        # a second execute request while the first cell is suspended (no prints: one console serves both cells, and the
        # execution counter of overlapping cells is not specified - it is masked in the comparison)
        val = R.choice(["7 * 6", "'a' + 'b'", "w = 5", "raise ValueError('late')"])
        b_ops.insert(R.int(0, len(b_ops)), {"t": "execute_request", "content": {"code": R.choice(["bq = 3", "bq = 4\nbq + 1"])}, "ids": ["b1"], "ascii": True})
    return {"part": "overlap", "key": R.choice(["key-a1", "0123456789abcdef"]), "drain_yields": R.bool(),
            "a": {"t": "execute_request", "content": {"code": f"task.sleep({R.choice([0.02, 0.04])})\n{val}"}, "ids": [R.choice(["a1", "aaaa"])], "ascii": True},
            "b": b_ops, "val": val}


async def run_overlap(case):
    """Every reply and broadcast must carry the header of the request it belongs to, also when the requests of two
    connections overlap; A's outcome is that of the cell without the sleep."""
    model = CellModel()
    exp, obs = [], []
    async with kh.Session(case["key"], mode="listen", drain_yields=case.get("drain_yields", False), n_iopub=1) as s:
        rd2 = kh.CountingReader()
        wr2 = kh.FakeWriter(s.wire, "shell2", s.drain_yields)
        ch2 = kh.Channel(s.wire, "shell2", s.key, greeting=True)
        t2 = asyncio.create_task(s.kernel.shell_listen(rd2, wr2))
        s.tasks.append(t2)
        lay = kh.Layout()
        lay.add_command(b"READY", [(b"Socket-Type", b"DEALER"), (b"Identity", b"")])
        await kh.feed_fragments(rd2, kh.peer_greeting() + bytes(lay.data), [10, 64])
        await s.quiesce()
        for ch in [s.shell, ch2] + [c for _, _, c in s.iopub]:
            ch.new_messages()

        def wire_of(i, op):
            frames, header = request_frames(s.key, i, op)
            lay = kh.Layout()
            lay.add_multipart(frames)
            return bytes(lay.data), header, kh.split_wire(frames)[0]

        data_a, hdr_a, ids_a = wire_of(0, case["a"])
        await kh.feed_fragments(s.shell_reader, data_a, [])
        await s.quiesce()
        hdrs_b = []
        for k, op in enumerate(case["b"]):
            data_b, hdr_b, ids_b = wire_of(100 + k, op)
            hdrs_b.append((op, hdr_b, ids_b))
            await kh.feed_fragments(rd2, data_b, [])
            await s.quiesce()
        overlapped = len(s.shell.items()) == s.shell.seen_items  # A has not been answered yet: the requests really overlap
        for _ in range(6000):  # up to 30 s of real time on a loaded machine; normally 20-40 ms
            if len(s.shell.items()) > s.shell.seen_items:
                break
            await asyncio.sleep(0.005)
        await s.quiesce()
        await asyncio.sleep(0.01)
        await s.quiesce()
        shell_a = s.shell.new_messages()
        shell_b = ch2.new_messages()
        iopub = s.iopub[0][2].new_messages()
        seen_ids, seen_pub = set(), set()
        # expected / observed for A
        op_a = dict(case["a"], content={"code": case["val"]})  # the sleep returns None and prints nothing
        e = expected_for(op_a, hdr_a, ids_a, model, 1)
        seq, text, bracket, stray_a, busy_gi, idle_gi = summarize_iopub(case["a"], [x for x in iopub if x[1].get("parent") == hdr_a], hdr_a, s.name, seen_pub)
        for row in seq:
            if row[0] == "execute_input":
                row[2] = True  # the code echoed is the cell as sent (with the sleep)
        o = {"valid": True, "hang": False, "shell": [summarize_reply(case["a"], m, hdr_a, seen_ids, []) for _, m in shell_a], "iopub": [seq], "stdout": [text],
             "stdout_bracketed": bracket, "order_ok": True, "stray": stray_a, "globals": s.user_globals()}
        for sh in o["shell"]:
            c = sh.get("content")
            if isinstance(c, dict) and isinstance(c.get("evalue"), str):
                c["evalue"] = c["evalue"].replace(s.name, "<cell>")
        e["who"] = o["who"] = "A"
        exp.append(e)
        obs.append(o)
        # B: one reply each, in order, own header; own busy/idle pair
        for k, (op, hdr_b, ids_b) in enumerate(hdrs_b):
            eb = expected_for(op, hdr_b, ids_b, CellModel(), 1)
            mine = [m for _, m in shell_b if m.get("parent") == hdr_b]
            seqb, textb, brb, strayb, _, _ = summarize_iopub(op, [x for x in iopub if x[1].get("parent") == hdr_b], hdr_b, s.name, seen_pub)
            ob = {"who": f"B{k}", "shell": [summarize_reply(op, m, hdr_b, seen_ids, []) for m in mine], "iopub": seqb}
            exp.append({"who": f"B{k}", "shell": eb["shell"], "iopub": eb["iopub"][0]})
            obs.append(ob)
        if any(op["t"] == "execute_request" for op in case["b"]):
            def mask(x):
                if isinstance(x, dict):
                    return {k: (None if k == "execution_count" else mask(v)) for k, v in x.items() if k != "globals"}
                if isinstance(x, list):
                    if len(x) >= 2 and x[0] in ("execute_input", "execute_result") and isinstance(x[1], int):
                        return [x[0], None] + [mask(v) for v in x[2:]]
                    return [mask(v) for v in x]
                return x
            exp[:] = [mask(x) for x in exp]
            obs[:] = [mask(x) for x in obs]
        known = [hdr_a] + [h for _, h, _ in hdrs_b]
        strays = [m.get("header", {}).get("msg_type") for _, m in shell_a + shell_b + iopub if m.get("parent") not in known]
        exp.append({"unattributed": []})
        obs.append({"unattributed": strays})
    return exp, obs, {"nontrivial": overlapped, "skipped_shapes": []}

# ---- generators -------------------------------------------------------------------------


def gen_expr(R, depth=0):
    k = R.weighted([(5, "int"), (3, "name"), (3, "bin"), (2, "str"), (1, "list"), (1, "cmp"), (1, "none"), (1, "strmul")] if depth < 2 else [(3, "int"), (2, "name"), (1, "str")])
    if k == "int":
        return str(R.int(0, 30))
    if k == "name":
        return R.choice(NAMES)
    if k == "str":
        return repr(R.choice(["", "x", "hello", "a b", "é✓", "it's", "%s"]))
    if k == "none":
        return "None"
    if k == "list":
        return "[" + ", ".join(gen_expr(R, depth + 1) for _ in range(R.int(0, 3))) + "]"
    if k == "cmp":
        return f"({gen_expr(R, depth + 1)} {R.choice(['<', '==', '!=', '>='])} {gen_expr(R, depth + 1)})"
    if k == "strmul":
        return f"({R.choice(['ab', '-'])!r} * {R.int(0, 4)})"
    return f"({gen_expr(R, depth + 1)} {R.choice(['+', '-', '*', '//', '%'])} {gen_expr(R, depth + 1)})"


def gen_stmt(R):
    k = R.weighted([(4, "assign"), (2, "aug"), (4, "expr"), (3, "print"), (2, "raise"), (1, "del")])
    if k == "assign":
        return f"{R.choice(NAMES)} = {gen_expr(R)}"
    if k == "aug":
        return f"{R.choice(NAMES)} {R.choice(['+=', '-=', '*='])} {gen_expr(R)}"
    if k == "expr":
        return gen_expr(R)
    if k == "print":
        return f"print({gen_expr(R)})"
    if k == "del":
        return f"del {R.choice(NAMES)}"
    exc = R.choice(["ValueError", "KeyError", "RuntimeError", "ZeroDivisionError", "Exception"])
    return f"raise {exc}({R.choice(['boom', 'x y', '', 'é'])!r})"


def gen_cell(R, i):
    if R.bool(1, 12):
        return f"m{i} = {i}\n" + R.choice(["1 +* 2", "x = = 2", "(1,", "def :"])
    stmts = [gen_stmt(R) for _ in range(R.weighted([(4, 1), (3, 2), (2, 3)]))]
    if R.bool(4, 5):
        stmts.insert(0, f"m{i} = {i}")
    return "\n".join(stmts)


def gen_corrupt(R):
    k = R.weighted([(6, "flip"), (2, "key"), (3, "sig"), (2, "drop"), (1, "swap"), (1, "flipid")])
    if k == "flip":
        return {"kind": "flip", "target": R.weighted([(3, "sig"), (2, "header"), (1, "parent"), (1, "metadata"), (3, "content")]), "bit": R.int(0, 4095)}
    if k == "key":
        return {"kind": "key", "key": R.choice(["", "k", "wrong-key", "KEY-A1", "key-a1 ", "key-a", "key-a11"])}
    if k == "sig":
        return {"kind": "sig", "how": R.choice(["empty", "trunc", "upper", "zeros", "other", "extended"])}
    if k == "drop":
        return {"kind": "drop", "target": R.choice(["delim", "sig"] + SIGNED)}
    if k == "swap":
        a = R.choice(SIGNED)
        return {"kind": "swap", "a": a, "b": R.choice([x for x in SIGNED if x != a])}
    return {"kind": "flipid", "idx": R.int(0, 3), "bit": R.int(0, 400)}


def gen_request(R, i):
    from hypothesis import strategies as st

    t = R.weighted([(8, "execute_request"), (2, "complete_request"), (2, "is_complete_request"), (2, "kernel_info_request"),
                    (1, "comm_info_request"), (1, "history_request")])
    if t == "execute_request":
        content = {"code": gen_cell(R, i), "silent": False, "user_expressions": {}, "allow_stdin": False}
        sh = R.weighted([(3, "absent"), (2, True), (2, False), (1, "silent")])
        if sh == "silent":
            content["silent"] = True
            content["store_history"] = False
        elif sh != "absent":
            content["store_history"] = sh
    elif t == "complete_request":
        code = R.choice(["ac", "to", "pri", "a", "", "x = be", "m", "acc.", "print(tot", "Zq", "beta + al"])
        content = {"code": code, "cursor_pos": R.choice([len(code), len(code), R.int(0, len(code))])}
    elif t == "is_complete_request":
        content = {"code": R.choice(list(IS_COMPLETE_KNOWN) + IS_COMPLETE_OTHER)}
    else:
        content = {}
    ids = [R.draw(st.binary(min_size=1, max_size=R.choice([5, 5, 40]))).hex() for _ in range(R.weighted([(1, 0), (5, 1), (2, 2), (1, 3)]))]
    ids = [x for x in ids if bytes.fromhex(x) != kh.DELIM]
    op = {"t": t, "content": content, "ids": ids, "ascii": R.bool(3, 4), "corrupt": gen_corrupt(R) if R.bool(2, 5) else None,
          "cuts": [R.int(0, 5000) for _ in range(R.weighted([(2, 0), (3, 2), (2, 6), (1, 25)]))], "long": R.bool(1, 5)}
    if R.bool(1, 6):
        op["metadata"] = {"tag": R.choice(["x", "é"]), "n": R.int(0, 9)}
    if R.bool(1, 8):
        op["parent"] = {"msg_id": "earlier", "msg_type": "execute_reply"}
    if not KNOWN_FINDING_BUFFERS_COVERED_BY_SIGNATURE and R.bool(1, 10):
        op["buffers"] = [R.draw(st.binary(min_size=0, max_size=20)).hex()]
    return op


def gen_session_case(R):
    return {
        "part": "session",
        "mode": R.weighted([(3, "handler"), (2, "listen")]),
        "key": R.choice(["key-a1", "0123456789abcdef", "k", "schlüssel-é", "a" * 64]),
        "drain_yields": R.bool(),
        "n_iopub": R.weighted([(4, 1), (1, 2)]),
        "ops": [gen_request(R, i) for i in range(R.int(1, 8))],
    }


def exhaustive_session_cases(tier):
    """Every single-bit flip (quick: a third of the header bits) of the signature and of every signed frame of one
    fixed execute request, every dropped frame, every signature mangling and a set of wrong keys; each group is
    followed by the untouched request in the same session."""
    base = {"t": "execute_request", "content": {"code": "hit = 7\nhit + 1"}, "ids": [b"cli01".hex()], "ascii": True, "cuts": [3, 12], "long": False,
            "metadata": {"k": 1}}
    frames, _ = request_frames(b"key-a1", 0, dict(base, corrupt=None))
    pos = {"sig": 2, "header": 3, "parent": 4, "metadata": 5, "content": 6}
    corrs = []
    for target, idx in pos.items():
        nbits = 8 * len(frames[idx])
        step = 3 if (tier == "quick" and target == "header") else 1
        corrs += [{"kind": "flip", "target": target, "bit": b} for b in range(0, nbits, step)]
    corrs += [{"kind": "drop", "target": t} for t in ["delim", "sig"] + SIGNED]
    corrs += [{"kind": "sig", "how": h} for h in ["empty", "trunc", "upper", "zeros", "other", "extended"]]
    corrs += [{"kind": "key", "key": k} for k in ["", "k", "key-a", "key-a11", "KEY-A1", "key-a1 ", "key-a2"]]
    corrs += [{"kind": "swap", "a": a, "b": b} for a in SIGNED for b in SIGNED if a < b]
    cases = []
    group = 12
    for g in range(0, len(corrs), group):
        ops = [dict(copy.deepcopy(base), corrupt=c) for c in corrs[g : g + group]] + [dict(copy.deepcopy(base), corrupt=None)]
        cases.append({"part": "session", "mode": "handler", "key": "key-a1", "drain_yields": bool((g // group) % 2), "n_iopub": 1, "ops": ops})
    for c in corrs[:: max(1, len(corrs) // 40)]:
        cases.append({"part": "session", "mode": "listen", "key": "key-a1", "drain_yields": False, "n_iopub": 1,
                      "ops": [dict(copy.deepcopy(base), corrupt=None), dict(copy.deepcopy(base), corrupt=c)]})
    return cases


# ------------------------------------------------------------------------------------------
# the check
# ------------------------------------------------------------------------------------------


class C19(ModelCheck):
    prop = PROP
    rule = (
        "(frame) 1-3 messages, each a list of 1-6 byte frames (send_multipart) or one frame (send), optionally preceded by "
        "ZMTP commands (send_cmd, ASCII names/properties, short and long), frame lengths weighted to 0, 1, 254, 255, 256, "
        "257, 65535, 65536, 2-40 and 258-3000 with random / all-zero / all-0xff / flag-like contents; the bytes are produced "
        "by the kernel's send routines (and must equal the canonical ZMTP 3.0 encoding of an independent encoder) or by the "
        "independent encoder (canonical, or long 8-byte headers forced on short frames), are fed to an asyncio.StreamReader "
        "fragment by fragment (the feeder waits until the reader has drained each fragment) with cut lists: none, one cut "
        "(biased to frame headers), every position in and around every frame header plus random cuts, 1-30 random cuts, or "
        "1-byte fragments throughout (messages <= 700 bytes), and are read back with recv_multipart / recv; oracle: equal "
        "frame lists (joined body for recv), nothing left over, clean EOF. Exhaustive: 17 small messages x {kernel, "
        "reference, reference-long-header} encodings of <= 40 bytes x every single cut position, no cut and all-1-byte. "
        "(session) a Kernel built like jupyter_kernel_start on in-memory streams, either read by its own shell_listen "
        "(with ZMTP handshake, greeting and READY checked) or by recv_multipart + shell_handler; 1-8 requests "
        "(execute / complete / is_complete / kernel_info / comm_info / history) with 0-3 identities, ASCII or UTF-8 JSON, "
        "random fragmentation, short or long frame headers; 40% carry a corruption: one flipped bit in the signature or a "
        "signed frame, signed with a wrong key (prefix, extension, case, empty), signature emptied / truncated / extended / "
        "upper-cased / zeroed / taken from another content, a dropped frame, two signed frames swapped, a flipped bit in an "
        "identity (stays valid). Oracle: validity = independent HMAC-SHA256 check; invalid => nothing written on shell or "
        "iopub and session globals unchanged; valid => exactly one reply, signature verifies, identities and parent_header "
        "equal the request's, fresh msg_id, iopub = busy, [execute_input, execute_result | error], idle on every subscriber, "
        "busy < reply < idle in write order, stdout text equal and inside busy..idle, execution_count per store_history, "
        "result repr / ename / evalue / globals equal to CPython exec of the same cells in order. Exhaustive: every bit of "
        "signature, parent, metadata, content (header: every third bit in quick, all in thorough) of one request, every "
        "dropped frame, signature mangling, wrong key and swap. Non-trivial = (frame) some frame of length 0 or >= 256 (or "
        "with a forced long header) and a cut strictly inside some frame header (between flag byte and length, or inside "
        "the length); (session) at least one invalid and one valid request were processed; distinct by case content."
    )
    assumptions = [
        "asyncio.StreamReader is real; the writer is a fake with write/drain/close, whose drain() either never yields (like "
        "asyncio's when the transport is not paused) or always yields (generated)",
        "TCP servers, port allocation, the no-connection timer and a real libzmq peer are not exercised",
        "print() is log.debug(): the harness sets custom_components.pyscript to DEBUG as a user would; single-argument print only",
        "generated cells use int / str / list arithmetic, assignment, del, raise and print only; ZMTP command names and "
        "properties are ASCII (send_cmd measures len(str), not len(bytes))",
        "silent=True is only generated together with store_history=False (the kernel ignores silent)",
        "is_complete content is compared for 11 unambiguous inputs only; completion content for cursor positions and session variables only",
    ]
    level = "exploration"

    def __init__(self):
        self._env = None

    # -- environment: one event loop + one Home Assistant instance per process -----------------
    def _enter_env(self):
        loop = asyncio.new_event_loop()
        asyncio.set_event_loop(loop)
        cm = l1.bare_hass()
        loop.run_until_complete(cm.__aenter__())
        self._env = (loop, cm)

    def _exit_env(self):
        loop, cm = self._env
        self._env = None
        try:
            loop.run_until_complete(asyncio.wait_for(cm.__aexit__(None, None, None), 30))
        except BaseException:  # noqa: BLE001
            pass
        try:
            loop.close()
        except BaseException:  # noqa: BLE001
            pass

    def run_shard(self, tier, shard_i, shard_n):
        self._enter_env()
        try:
            return super().run_shard(tier, shard_i, shard_n)
        finally:
            self._exit_env()

    def n_random(self, tier):
        return {"quick": 3200, "thorough": 160000}[tier]

    def exhaustive_cases(self, tier):
        return exhaustive_frame_cases() + exhaustive_session_cases(tier)

    def regress_cases(self):
        return self.fixed_regress()

    def gen(self, R):
        if R.bool(1, 16):
            return gen_overlap_case(R)
        if R.bool():
            return gen_frames_case(R)
        return gen_session_case(R)

    def run(self, case):
        own = self._env is None
        if own:
            self._enter_env()
        try:
            loop = self._env[0]
            return loop.run_until_complete(self.arun(case))
        finally:
            if own:
                self._exit_env()

    async def arun(self, case):
        case = json.loads(json.dumps(case))
        if case["part"] == "frame":
            exp, obs, info = await run_frames(case)
            classes = ["frame", "frame-" + case["enc"]]
            if info.get("short_reads"):
                classes.append("frame-short-read")
            if info.get("special"):
                classes.append("frame-special-length")
            if info.get("split"):
                classes.append("frame-header-split")
            if any(op["op"] == "cmd" for op in case["ops"]):
                classes.append("frame-command")
            return {"expected": exp, "observed": obs, "nontrivial": bool(info["nontrivial"]), "classes": classes, "detail": info}
        if case["part"] == "overlap":
            exp, obs, info = await asyncio.wait_for(run_overlap(case), 120)
            return {"expected": exp, "observed": obs, "nontrivial": bool(info["nontrivial"]), "classes": ["overlap"] + sorted({"req-" + op["t"] for op in case["b"]}), "detail": info}
        exp, obs, info = await asyncio.wait_for(run_session(case), 120)
        classes = ["session", "session-" + case["mode"]] + ["known-shape:" + x for x in sorted(set(info["skipped_shapes"]))]
        classes += sorted({"req-" + op["t"] for op in case["ops"]})
        classes += sorted({"corrupt-" + op["corrupt"]["kind"] for op in case["ops"] if op.get("corrupt")})
        return {"expected": exp, "observed": obs, "nontrivial": bool(info["nontrivial"]), "classes": classes, "detail": info}

    def bucket(self, case, result):
        exp, obs = result["expected"], result["observed"]
        if case["part"] == "frame":
            if exp.get("wire_canonical") != obs.get("wire_canonical"):
                return "frame|wire-not-canonical"
            kind = "tail" if exp["reads"] == obs["reads"] else "reads"
            return f"frame|{case['enc']}|{kind}|{obs['tail'] if isinstance(obs['tail'], str) else 'extra'}"
        if case["part"] == "overlap":
            for e, o in zip(exp, obs):
                if e != o:
                    return f"overlap|{e.get('who', 'unattributed')}|" + "+".join(sorted(k for k in set(e) | set(o) if e.get(k) != o.get(k)))[:60]
            return "overlap|length"
        for e, o in zip(exp, obs):
            if e != o:
                fields = sorted(k for k in set(e) | set(o) if e.get(k) != o.get(k))
                return f"session|{case['mode']}|{'valid' if e.get('valid') else 'invalid' if 'valid' in e else 'handshake'}|{'+'.join(fields)[:60]}"
        return f"session|{case['mode']}|length"


CHECK = C19()


def run_shard(tier, i, n):
    return CHECK.run_shard(tier, i, n)


def replay(path):
    return CHECK.replay(path)


def main(tier):
    return CHECK.main(tier)
