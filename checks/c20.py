"""C20 - requirements resolution is order-independent and never overrides the host.

Structured requirement lines are generated, rendered to requirements.txt files in a temporary config directory and
fed to the real process_all_requirements / install_requirements (installer and version look-ups patched the way
tests/test_requirements.py does it).  The oracle works on the structure only (it never parses the rendered text):
an order-free "highest valid pin, else unpinned" resolution and an install-step model written from
docs/reference.rst and the property statement.
"""

from __future__ import annotations

import asyncio
import atexit
import glob
import itertools
import json
import os
import re
import shutil
import tempfile

from vlib import core, l1
from vlib.modelcheck import ModelCheck

PROP = "C20"

PKGS = ["alpha", "beta-pkg", "gamma_pkg", "delta4"]
ORPHAN = "omega"  # recorded by pyscript earlier, not mentioned by any requirements file
SLOTS = ["", "apps/app1", "apps/app2", "modules/mod1", "modules/mod2", "scripts/s1"]
# valid pins; contains equal versions spelt differently, a pre-release and string-vs-numeric ordering traps
VERSIONS = ["0.9", "1.0", "1.0.0", "1.2", "1.2.0", "1.9", "1.10", "2.0rc1", "2.0", "2.0.0", "2.0.1", "10.0"]
BAD_PINS = ["abc", "latest", "1.x", ""]
UNSUP = [">=1.0", "<=2.0", ">=1.0,<2.0", "==1.0,==2.0", ">1.0", "<3", ">=0.9, <=10.0"]
# what the simulated package index publishes (spelling of the metadata version) and what an unpinned install yields
PUBLISHED = ["0.9", "1.0", "1.2", "1.9", "1.10", "2.0rc1", "2.0", "2.0.1", "10.0"]
INST_POOL = ["0.9", "1.0", "1.2", "1.9", "1.10", "2.0", "2.0.1", "10.0"]
LATEST = "11.0"
ALT_SPELLING = {"1.0": "1.0.0", "1.2": "1.2.0", "2.0": "2.0.0"}

F_MALFORMED = "C20-malformed-pin-order"
F_COMPAT = "C20-compatible-release-not-ignored"
F_STRCMP = "C20-unpinned-record-string-compare"
SWITCH_IDS = [("malformed", F_MALFORMED), ("compat", F_COMPAT), ("strcmp", F_STRCMP)]

MENTION_KINDS = ("pin", "unpinned", "unsup", "badpin", "compat")


# ------------------------------------------------------------------------------------------
# versions
# ------------------------------------------------------------------------------------------


def _V(v):
    from packaging.version import Version

    return Version(v)


def valid(v):
    from packaging.version import InvalidVersion

    try:
        _V(v)
        return True
    except (InvalidVersion, TypeError):
        return False


def canon(v):
    """Spelling-independent form of a version string ('1.0' and '1.0.0' -> '1'); malformed -> 'raw:<text>'."""
    from packaging.utils import canonicalize_version

    if v is None:
        return None
    if not valid(v):
        return "raw:" + str(v)
    return canonicalize_version(str(_V(v)))


def veq(a, b):
    return canon(a) == canon(b)


def published(v):
    """The simulated index installs the published spelling of the pinned version."""
    for p in PUBLISHED:
        if veq(p, v):
            return p
    return v


# ------------------------------------------------------------------------------------------
# structured lines -> text
# ------------------------------------------------------------------------------------------


def render(line):
    k, p, v, f = line["k"], line.get("p"), line.get("v"), int(line.get("f", 0))
    if k == "blank":
        return ["", "   ", "\t"][f % 3]
    if k == "comment":
        body = f"{p}=={v}"
        return [f"# {body}", f"#{body}", f"   # {body}", f"# {p}"][f % 4]
    if k in ("pin", "badpin"):
        text = f"{p}=={v}"
    elif k == "unpinned":
        text = p
    elif k == "unsup":
        text = f"{p}{v}"
    elif k == "compat":
        text = f"{p}~={v}"
    else:
        raise ValueError(k)
    return [
        text,
        "  " + text + "  ",
        text + " # note",
        text + "#" + p + "==99.9",
        text + "\t",
        text + "   # was ==0.1, needs >=0.1,<99",
    ][f % 6]


def files_of(case, slotmap=None, order=None):
    """{slot path: [rendered line, ...]} for one arrangement of the case."""
    n = len(case["slots"])
    slotmap = list(range(n)) if slotmap is None else slotmap
    order = list(range(len(case["lines"]))) if order is None else order
    out = {case["slots"][slotmap[f]]: [] for f in range(n)}
    for i in order:
        f, line = case["lines"][i]
        out[case["slots"][slotmap[f]]].append(render(line))
    return out


def make_dirs(pys, case):
    """The set of locations is the same for every arrangement of a case: create it once."""
    os.makedirs(pys)
    for slot in case["slots"]:
        os.makedirs(os.path.join(pys, slot), exist_ok=True)


def write_files(pys, case, slotmap, order, written):
    """(Over)write the requirements.txt of every location of the case; each location always has a file.
    `written` remembers what each file holds so that unchanged files are not rewritten."""
    eol = case.get("eol", 1)
    for slot, texts in files_of(case, slotmap, order).items():
        sep = "\r\n" if eol == 2 else "\n"
        body = sep.join(texts) + (sep if eol and texts else "")
        if written.get(slot) == body:
            continue
        with open(os.path.join(pys, slot, "requirements.txt"), "w", encoding="utf-8", newline="") as fh:
            fh.write(body)
        written[slot] = body


def temp_config_dir():
    """A fresh config directory outside /repo and /verif; on a memory file system when there is one (the check
    rewrites small files thousands of times) unless TMPDIR says otherwise."""
    base = None
    if not os.environ.get("TMPDIR") and os.path.isdir("/dev/shm") and os.access("/dev/shm", os.W_OK | os.X_OK):
        base = "/dev/shm"
    cfg = tempfile.mkdtemp(prefix="verif-c20-", dir=base)
    real = os.path.realpath(cfg)
    assert not real.startswith(("/repo/", "/verif/", os.path.realpath(core.REPO) + "/", core.VERIF + "/")), cfg
    return cfg


def processing_order(pys, case, slotmap):
    """File ids in the order the documented locations are visited (root, apps/*, modules/*, scripts/*); the order
    inside one location is whatever the file system lists, so it is read back rather than assumed.  Only the
    defect variants need it: the oracle is order-free."""
    slot2file = {case["slots"][slotmap[f]]: f for f in range(len(case["slots"]))}
    out = []
    for root in ("", "apps/*", "modules/*", "scripts/*"):
        for path in glob.glob(os.path.join(pys, root, "requirements.txt")):
            rel = os.path.relpath(os.path.dirname(path), pys)
            rel = "" if rel == "." else rel.replace(os.sep, "/")
            if rel in slot2file:
                out.append(slot2file[rel])
    return out


# ------------------------------------------------------------------------------------------
# arrangements (permutations of files over their locations and of lines inside files)
# ------------------------------------------------------------------------------------------


def arrangements(case):
    """[(slotmap, order)]; the first one is the case as written."""
    n_files = len(case["slots"])
    lines = case["lines"]
    ident = (list(range(n_files)), list(range(len(lines))))
    out = [ident]
    if len(lines) <= 5:
        per_file = {f: [i for i, (ff, _) in enumerate(lines) if ff == f] for f in range(n_files)}
        nonempty = [f for f in range(n_files) if per_file[f]]
        for sp in itertools.permutations(nonempty):
            slotmap = list(range(n_files))
            for f, g in zip(nonempty, sp):
                slotmap[f] = g
            for combo in itertools.product(*[itertools.permutations(per_file[f]) for f in nonempty]):
                order = [i for part in combo for i in part]
                if (slotmap, order) != ident:
                    out.append((slotmap, order))
        return out, True
    perms = case.get("perms")
    if perms is None:  # hand-written case: a few fixed ones
        idx = list(range(len(lines)))
        sm = list(range(n_files))
        perms = [{"slotmap": sm[::-1], "order": idx[::-1]}, {"slotmap": sm[1:] + sm[:1], "order": idx[1:] + idx[:1]},
                 {"slotmap": sm, "order": idx[::-1]}]
    for p in perms:
        if sorted(p["slotmap"]) == list(range(n_files)) and sorted(p["order"]) == list(range(len(lines))):
            out.append((list(p["slotmap"]), list(p["order"])))
    return out, False


# ------------------------------------------------------------------------------------------
# the oracle: order-free resolution + install-step model
# ------------------------------------------------------------------------------------------


def oracle_resolution(case):
    """package -> '==<canonical highest valid pin>' | 'unpinned'.  Looks at the multiset of structured lines only."""
    pins, unp = {}, set()
    for _f, line in case["lines"]:
        if line["k"] == "pin":
            pins.setdefault(line["p"], []).append(line["v"])
        elif line["k"] == "unpinned":
            unp.add(line["p"])
        # comment, blank, unsupported specifier, malformed pin, ~= : ignored
    out = {}
    for p in sorted(set(pins) | unp):
        if p in pins:
            out[p] = "==" + canon(max(pins[p], key=_V))
        else:
            out[p] = "unpinned"
    return out


def variant_resolution(case, file_order, order, sw):
    """Order-DEPENDENT fold used only to recognise known defects (never as the oracle).
    sw 'malformed': '==' pins are recorded unvalidated - the first pin seen for a package (or the first after an
    unpinned entry, or after an empty pin) is taken as written and every later comparison against a malformed pin is
    skipped.  sw 'compat': a 'pkg~=v' line counts as an unpinned package literally named 'pkg~=v'."""
    cur = {}
    seq = [i for f in file_order for i in order if case["lines"][i][0] == f]
    for i in seq:
        line = case["lines"][i][1]
        k = line["k"]
        if k == "pin" or (k == "badpin" and "malformed" in sw):
            name, new = line["p"], line["v"]
        elif k == "unpinned":
            name, new = line["p"], None
        elif k == "compat" and "compat" in sw:
            name, new = f"{line['p']}~={line['v']}", None
        else:
            continue
        if name not in cur or cur[name] == "":
            cur[name] = new
        elif new is None:
            pass
        elif cur[name] is None:
            cur[name] = new
        elif valid(cur[name]) and valid(new):
            if _V(new) > _V(cur[name]):
                cur[name] = new
    return {p: ("unpinned" if v is None else "==" + canon(v)) for p, v in sorted(cur.items())}


def install_model(res, env, rec, allow, installer_ok, sw=()):
    """One run of the install step.  res: package -> '==<canon>' | 'unpinned' | '==raw:<text>'.
    Returns (run dict, env after, record after).  Written from the property statement:
      nothing unless allow_all_imports; not installed -> install; installed and not recorded -> never touched;
      recorded but installed version is no longer the recorded one -> somebody else changed it: not touched and no
      longer recorded; recorded and unchanged -> installed again only when the pin differs (by version equality);
      record afterwards = previous record (minus the foreign ones) + what was passed to the installer."""
    env, rec = dict(env), dict(rec)
    run = {"installer": [], "record": None, "host_changed": [], "error": None}
    if res and not allow:
        run["record"] = {p: canon(v) for p, v in sorted(rec.items())}
        return run, env, rec
    rec2 = dict(rec)
    passed = {}
    for p, want in res.items():
        inst = env.get(p)
        if inst is None:
            passed[p] = want
            continue
        if p not in rec:
            continue
        if want == "unpinned":
            same = (rec[p] == inst) if "strcmp" in sw else veq(rec[p], inst)
            if not same:
                del rec2[p]
            continue
        if not valid(rec[p]):  # only reachable through the malformed-pin defect
            run["error"] = "InvalidVersion"
            break
        if not veq(rec[p], inst):
            del rec2[p]
            continue
        if want.startswith("==raw:"):  # only reachable through the malformed-pin defect
            run["error"] = "InvalidVersion"
            break
        if want != "==" + canon(inst):
            passed[p] = want
    if run["error"]:
        run["record"] = {p: canon(v) for p, v in sorted(rec.items())}
        return run, env, rec
    before = dict(env)
    for p, want in passed.items():
        if want == "unpinned":
            if installer_ok and NAME_RE.match(p):
                env[p] = LATEST
            # the record holds the version the installer produced; when nothing got installed there is no
            # version to record, so a stale entry for the (absent) package goes as well
            if env.get(p):
                rec2[p] = env[p]
            else:
                rec2.pop(p, None)
        else:
            v = want[2:]
            if v.startswith("raw:"):
                rec2[p] = v[4:]
            else:
                if installer_ok:
                    env[p] = published(v)
                rec2[p] = v
    run["installer"] = sorted([p, w] for p, w in passed.items())
    run["record"] = {p: canon(v) for p, v in sorted(rec2.items())}
    run["host_changed"] = sorted(p for p in before if before[p] is not None and p not in rec and env.get(p) != before[p])
    return run, env, rec2


NAME_RE = re.compile(r"^[A-Za-z0-9][A-Za-z0-9._-]*$")


def model_runs(case, base_res):
    env = {p: v for p, v in case.get("installed", {}).items() if v is not None}
    rec = dict(case.get("recorded", {}))
    runs = []
    for _ in range(case.get("runs", 2)):
        run, env, rec = install_model(
            {p: r[0] for p, r in base_res.items()}, env, rec, case["allow"], case.get("installer", "ok") == "ok", case.get("_sw", ())
        )
        run["persisted"] = dict(run["record"])
        runs.append(run)
    return runs


def with_installed(res, case):
    env = case.get("installed", {})
    return {p: [sel, env.get(p)] for p, sel in res.items()}


def laws(case, runs):
    """Model-independent consequences stated by the property."""
    quiet = True
    if case.get("installer", "ok") == "ok" and len(runs) >= 2:
        quiet = all(not r["installer"] for r in runs[1:])
    return {"nothing_installed_unless_allowed": case["allow"] or all(not r["installer"] for r in runs),
            "repeat_run_installs_nothing": quiet,
            "host_packages_untouched": all(not r["host_changed"] for r in runs)}


# ------------------------------------------------------------------------------------------
# running the real code
# ------------------------------------------------------------------------------------------


def canon_resolution(raw):
    from custom_components.pyscript.const import ATTR_INSTALLED_VERSION, ATTR_VERSION, UNPINNED_VERSION

    out = {}
    for p, info in sorted(raw.items()):
        v = info[ATTR_VERSION]
        out[p] = ["unpinned" if v == UNPINNED_VERSION else "==" + canon(v), info.get(ATTR_INSTALLED_VERSION)]
    return out


def canon_args(reqs):
    out = []
    for r in reqs:
        if "==" in r:
            name, v = r.split("==", 1)
            out.append([name, "==" + canon(v)])
        else:
            out.append([r, "unpinned"])
    return sorted(out)


async def execute(case, hass):
    """Returns (resolutions per arrangement, file orders per arrangement, arrangements, runs, exhaustive?).
    The requirements files live in a per-case temporary config directory (removed afterwards); `hass` is the
    shared test instance of the session (install_requirements takes the pyscript folder as an argument)."""
    from importlib.metadata import PackageNotFoundError
    from unittest.mock import patch

    from pytest_homeassistant_custom_component.common import MockConfigEntry

    from custom_components.pyscript import requirements as req
    from custom_components.pyscript.const import (
        CONF_ALLOW_ALL_IMPORTS,
        CONF_INSTALLED_PACKAGES,
        DOMAIN,
        REQUIREMENTS_FILE,
        REQUIREMENTS_PATHS,
    )

    env = {p: v for p, v in case.get("installed", {}).items() if v is not None}
    installer_ok = case.get("installer", "ok") == "ok"
    calls = []

    def fake_installed_version(name):
        if env.get(name) is None:
            raise PackageNotFoundError(name)
        return env[name]

    async def fake_installer(hass, domain, reqs, *a, **kw):
        calls.append(list(reqs))
        if not installer_ok:
            return
        for r in reqs:
            if "==" in r:
                name, v = r.split("==", 1)
                if NAME_RE.match(name) and valid(v):
                    env[name] = published(v)
            elif NAME_RE.match(r):
                env[r] = LATEST

    arrs, exhaustive = arrangements(case)
    cfg = temp_config_dir()
    pys = os.path.join(cfg, "pyscript")
    resolutions, orders, runs = [], [], []
    try:
        with patch.object(req, "installed_version", side_effect=fake_installed_version), patch.object(
            req, "async_process_requirements", side_effect=fake_installer
        ):
            make_dirs(pys, case)
            written = {}
            for slotmap, order in arrs[1:] + arrs[:1]:  # the case as written last: its files stay for the install step
                write_files(pys, case, slotmap, order, written)
                orders.append(processing_order(pys, case, slotmap))
                try:
                    resolutions.append(canon_resolution(req.process_all_requirements(pys, REQUIREMENTS_PATHS, REQUIREMENTS_FILE)))
                except Exception as e:  # noqa: BLE001 - an escaping exception is an observation
                    resolutions.append({"error": type(e).__name__})
            resolutions = resolutions[-1:] + resolutions[:-1]
            orders = orders[-1:] + orders[:-1]
            data = {CONF_ALLOW_ALL_IMPORTS: case["allow"]}
            if case.get("recorded") or case.get("rec_key", True):
                data[CONF_INSTALLED_PACKAGES] = dict(case.get("recorded", {}))
            entry = MockConfigEntry(domain=DOMAIN, data=data)
            entry.add_to_hass(hass)
            await hass.async_block_till_done()
            # what Home Assistant was told to store (a restart reloads this, not the in-memory dictionary)
            persisted = {"rec": dict(data.get(CONF_INSTALLED_PACKAGES, {}))}
            orig_update = hass.config_entries.async_update_entry

            def recording_update(entry=None, *a, **kw):
                if kw.get("data") is not None and CONF_INSTALLED_PACKAGES in kw["data"]:
                    persisted["rec"] = dict(kw["data"][CONF_INSTALLED_PACKAGES])
                return orig_update(entry, *a, **kw) if entry is not None else orig_update(*a, **kw)

            hass.config_entries.async_update_entry = recording_update
            for _ in range(case.get("runs", 2)):
                calls.clear()
                before = dict(env)
                rec_before = dict(entry.data.get(CONF_INSTALLED_PACKAGES, {}))
                err = None
                try:
                    await req.install_requirements(hass, entry, pys)
                    await hass.async_block_till_done()
                except Exception as e:  # noqa: BLE001
                    err = type(e).__name__
                rec_after = dict(entry.data.get(CONF_INSTALLED_PACKAGES, {}))
                runs.append({
                    "installer": canon_args([r for c in calls for r in c]),
                    "record": {p: canon(v) for p, v in sorted(rec_after.items())},
                    "persisted": {p: canon(v) for p, v in sorted(persisted["rec"].items())},
                    "host_changed": sorted(p for p in before if before[p] is not None and p not in rec_before and env.get(p) != before[p]),
                    "error": err,
                })
    finally:
        if "async_update_entry" in vars(hass.config_entries):
            del hass.config_entries.async_update_entry
        shutil.rmtree(cfg, ignore_errors=True)
    return resolutions, orders, arrs, runs, exhaustive


class Session:
    """One event loop and one Home Assistant test instance per allow_all_imports value, shared by the cases of a
    process (a fresh instance per case costs ~50 ms and dominates the run); renewed every RENEW cases so that the
    config entries of earlier cases do not pile up."""

    RENEW = 400

    def __init__(self):
        self.loop = None
        self.live = {}  # allow -> [context manager, hass, uses]

    def _close_one(self, allow):
        cm, _hass, _n = self.live.pop(allow)
        self.loop.run_until_complete(cm.__aexit__(None, None, None))

    def hass(self, allow):
        if self.loop is None:
            self.loop = asyncio.new_event_loop()
        if allow in self.live and self.live[allow][2] >= self.RENEW:
            self._close_one(allow)
        if allow not in self.live:
            cm = l1.bare_hass(allow_all_imports=allow)
            self.live[allow] = [cm, self.loop.run_until_complete(cm.__aenter__()), 0]
        self.live[allow][2] += 1
        return self.live[allow][1]

    def run(self, case):
        hass = self.hass(bool(case["allow"]))
        return self.loop.run_until_complete(execute(case, hass))

    def close(self):
        if self.loop is None:
            return
        for allow in list(self.live):
            try:
                self._close_one(allow)
            except Exception:  # noqa: BLE001 - best effort at exit
                pass
        self.loop.close()
        self.loop = None


SESSION = Session()
atexit.register(SESSION.close)


def assemble(case, expected_res, resolutions, arrs, runs):
    """Common shape of expected / observed / variant results."""
    dev = []
    for (slotmap, order), r in zip(arrs[1:], resolutions[1:]):
        if r != expected_res and len(dev) < 3:
            dev.append({"files": files_of(case, slotmap, order), "resolution": r})
    return {"resolution": resolutions[0], "permutation_deviations": dev,
            "n_permutation_deviations": sum(1 for r in resolutions[1:] if r != expected_res), "runs": runs, "laws": laws(case, runs)}


# ------------------------------------------------------------------------------------------
# known-defect shapes
# ------------------------------------------------------------------------------------------


def shape_packages(case):
    """switch -> set of result keys (package names) that the defect can affect in this case."""
    out = {"malformed": set(), "compat": set(), "strcmp": set()}
    for _f, line in case["lines"]:
        if line["k"] == "badpin":
            out["malformed"].add(line["p"])
        elif line["k"] == "compat":
            out["compat"].add(f"{line['p']}~={line['v']}")
    inst, rec = case.get("installed", {}), case.get("recorded", {})
    for p, r in rec.items():
        if inst.get(p) is not None and r != inst[p] and veq(r, inst[p]):
            out["strcmp"].add(p)
    return {k: v for k, v in out.items() if v}


def diff_packages(exp, obs):
    """Names whose entries differ anywhere between two assembled results (None when a run raised)."""
    names = set()

    def dd(a, b):
        for k in set(a) | set(b):
            if a.get(k) != b.get(k):
                names.add(k)

    dd(exp["resolution"], obs["resolution"])
    for d in obs["permutation_deviations"]:
        dd(exp["resolution"], d["resolution"])
    for re_, ro in zip(exp["runs"], obs["runs"]):
        if ro["error"]:
            return None
        dd(dict(map(tuple, re_["installer"])), dict(map(tuple, ro["installer"])))
        dd(re_["record"], ro["record"])
        dd(re_["persisted"], ro.get("persisted", ro["record"]))
        names.update(set(re_["host_changed"]) ^ set(ro["host_changed"]))
    return names


# ------------------------------------------------------------------------------------------


class C20(ModelCheck):
    prop = PROP
    shrink_key = "lines"
    rule = (
        "requirements.txt files in 1-4 of the locations <pyscript>/, apps/app1|app2/, modules/mod1|mod2/, scripts/s1/ "
        "holding 1-14 structured lines for 1-4 packages: '==' pins from a pool with equal versions spelt differently "
        "(1.0/1.0.0), a pre-release and numeric-vs-text ordering traps (1.9/1.10, 2.0/10.0), unpinned names, whole-line "
        "and inline comments (also containing '==', '>=' and ','), blank lines, surrounding white space, LF/CRLF/no final "
        "newline, unsupported specifiers (>=, <=, >, <, comma lists) and, in minority flavours (8 % / 7 % / 5 % of random "
        "cases), malformed pins (==abc, ==latest, ==1.x, empty), '~=' lines, a record spelt differently from the installed "
        "version. Each case is resolved by the real process_all_requirements under EVERY permutation of the non-empty "
        "files over their locations and of the lines inside each file when the case has <= 5 lines (exhaustive=true for "
        "those) and under 10 generated permutations above; then install_requirements runs 1-3 times in a Home Assistant "
        "test instance with the installer and importlib.metadata look-up replaced by a simulated environment "
        "(installed version None/one of 8 per package x recorded none/same/other x allow_all_imports x installer "
        "works / does nothing). Oracle (from docs/reference.rst, never parsing the rendered text): per package the "
        "highest valid pin by packaging Version, else unpinned, identical for every permutation, reported installed "
        "version = environment; install step: nothing unless allowed, not installed -> passed to the installer, installed "
        "and unrecorded -> never, recorded but changed by somebody else -> untouched and forgotten, recorded and "
        "unchanged -> only when the pin differs by version equality, record afterwards = previous record + what was "
        "passed, and the record handed to Home Assistant for storage (async_update_entry) equals the in-memory one after every run; laws: repeat run installs nothing, host packages untouched. Exhaustive part: every multiset of <= 3 "
        "(quick) / <= 4 (thorough) lines from a 9-line alphabet x every split over two files x 8 environment "
        "combinations. Non-trivial = one package is mentioned (pin, unpinned, unsupported or malformed line) in >= 2 "
        "files and those mentions are not all the same line; distinct by case content."
    )
    assumptions = [
        "the installer (homeassistant.requirements.async_process_requirements) and importlib.metadata.version are replaced, as in tests/test_requirements.py; the simulated installer installs the published spelling of a pin, 11.0 for an unpinned name, and nothing for text pip could not resolve",
        "a recorded package whose installed version no longer equals the recorded one counts as changed by somebody else: it is not touched and dropped from the record (tests/test_requirements.py asserts this)",
        "package names are compared as written (no PEP 503 normalisation); white space around '==' is not generated (the documented format is pkg==version)",
        "file processing order inside one location (apps/*) is whatever the file system lists; both orders are reached by permuting file contents over the locations",
        "the 'sources' list of the returned table is not checked (log text only)",
        "when the (simulated) installer installs nothing for an unpinned requirement there is no version to record: the package is not recorded and a stale entry for it is dropped (resolved in favour of the code; only reachable with the do-nothing installer of the repo's own tests)",
        "one Home Assistant test instance per allow_all_imports value is shared by the cases of a shard (renewed every 400 cases); the requirements files of each case live in their own tempfile.mkdtemp directory (under /dev/shm when present and TMPDIR is unset, else the default temp dir), removed after the case",
    ]

    def run_shard(self, tier, shard_i, shard_n):
        try:
            return super().run_shard(tier, shard_i, shard_n)
        finally:
            SESSION.close()

    # ---------------------------------------------------------------- generation
    def n_random(self, tier):
        return {"quick": 3200, "thorough": 120000}[tier]

    def regress_cases(self):
        return self.fixed_regress()

    def exhaustive_cases(self, tier):
        maxn = {"quick": 3, "thorough": 4}[tier]
        a = "alpha"
        alphabet = [
            {"k": "pin", "p": a, "v": "1.0", "f": 0},
            {"k": "pin", "p": a, "v": "1.0.0", "f": 1},
            {"k": "pin", "p": a, "v": "2.0", "f": 2},
            {"k": "pin", "p": a, "v": "10.0", "f": 0},
            {"k": "unpinned", "p": a, "f": 0},
            {"k": "unsup", "p": a, "v": ">=11.0", "f": 0},
            {"k": "comment", "p": a, "v": "12.0", "f": 1},
            {"k": "pin", "p": "beta-pkg", "v": "1.0", "f": 0},
            {"k": "unpinned", "p": "beta-pkg", "f": 3},
        ]
        envs = [(None, None, True), ("1.0", None, True), ("1.0", "1.0", True), ("2.0", "1.0", True), (None, "1.0", True),
                ("10.0", "10.0", True), (None, None, False), ("1.0", "1.0", False)]
        cases = []
        for n in range(1, maxn + 1):
            for ms in itertools.combinations_with_replacement(range(len(alphabet)), n):
                for split in itertools.product([0, 1], repeat=n - 1):
                    files = (0,) + split
                    lines = [[f, alphabet[i]] for f, i in zip(files, ms)]
                    for inst, rec, allow in envs:
                        cases.append({
                            "slots": ["", "apps/app1"] if 1 in files else [""],
                            "lines": lines,
                            "installed": {a: inst, "beta-pkg": None},
                            "recorded": ({a: rec} if rec else {}),
                            "allow": allow, "installer": "ok", "runs": 2, "eol": 1, "rec_key": True,
                        })
        return cases

    def gen(self, R):
        flavour = R.weighted([(80, "clean"), (8, "malformed"), (7, "compat"), (5, "strcmp")])
        pkgs = R.shuffle(PKGS)[: R.weighted([(3, 1), (4, 2), (2, 3), (1, 4)])]
        n_files = R.weighted([(1, 1), (4, 2), (3, 3), (2, 4)])
        slots = R.shuffle(SLOTS)[:n_files]
        n_lines = R.weighted([(2, 1), (4, 2), (5, 3), (5, 4), (4, 5), (2, 6), (2, 8), (1, 11), (1, 14)])
        kinds = [(8, "pin"), (3, "unpinned"), (1, "comment"), (1, "blank"), (2, "unsup")]
        if flavour == "malformed":
            kinds.append((3, "badpin"))
        if flavour == "compat":
            kinds.append((3, "compat"))
        lines = []
        for _ in range(n_lines):
            lines.append([R.int(0, n_files - 1), self.gen_line(R, R.weighted(kinds), pkgs)])
        if flavour == "malformed" and not any(l["k"] == "badpin" for _, l in lines):
            lines.insert(R.int(0, len(lines)), [R.int(0, n_files - 1), self.gen_line(R, "badpin", pkgs)])
        if flavour == "compat" and not any(l["k"] == "compat" for _, l in lines):
            lines.insert(R.int(0, len(lines)), [R.int(0, n_files - 1), self.gen_line(R, "compat", pkgs)])
        installed, recorded = {}, {}
        for p in pkgs:
            inst = R.weighted([(3, None), (4, "x")])
            if inst == "x":
                inst = R.choice(INST_POOL)
            installed[p] = inst
            how = R.weighted([(4, "none"), (3, "same"), (2, "other")])
            if how == "same" and inst is not None:
                recorded[p] = inst
            elif how == "other":
                recorded[p] = R.choice(INST_POOL)
        if flavour == "strcmp":
            p = pkgs[0]
            installed[p] = R.choice(sorted(ALT_SPELLING))
            recorded[p] = ALT_SPELLING[installed[p]]
            lines.insert(R.int(0, len(lines)), [R.int(0, n_files - 1), self.gen_line(R, "unpinned", [p])])
        if R.bool(1, 5):
            recorded[ORPHAN] = R.choice(INST_POOL)
            if R.bool():
                installed[ORPHAN] = recorded[ORPHAN]
        case = {
            "slots": slots, "lines": lines, "installed": installed, "recorded": recorded,
            "allow": R.bool(3, 4), "installer": R.weighted([(5, "ok"), (1, "noop")]),
            "runs": R.weighted([(1, 1), (4, 2), (1, 3)]), "eol": R.weighted([(5, 1), (1, 0), (1, 2)]), "rec_key": R.bool(),
        }
        if len(lines) > 5:
            case["perms"] = [{"slotmap": R.shuffle(range(n_files)), "order": R.shuffle(range(len(lines)))} for _ in range(10)]
        return case

    def gen_line(self, R, kind, pkgs):
        p = R.weighted([(3, pkgs[0])] + [(1, q) for q in pkgs[1:]])
        line = {"k": kind, "p": p, "f": R.weighted([(4, 0), (1, 1), (1, 2), (1, 3), (1, 4), (1, 5)])}
        if kind in ("pin", "comment", "compat"):
            line["v"] = R.choice(VERSIONS)
        elif kind == "badpin":
            line["v"] = R.choice(BAD_PINS)
        elif kind == "unsup":
            line["v"] = R.choice(UNSUP)
        return line

    # ---------------------------------------------------------------- execution
    def run(self, case):
        case = json.loads(json.dumps(case))
        exp_res = with_installed(oracle_resolution(case), case)
        resolutions, orders, arrs, runs, exhaustive = SESSION.run(case)
        expected = assemble(case, exp_res, [exp_res] * len(arrs), arrs, model_runs(case, exp_res))
        observed = assemble(case, exp_res, resolutions, arrs, runs)

        variant = None
        shapes = shape_packages(case)
        if expected != observed and shapes:
            names = sorted(shapes)
            for k in range(1, len(names) + 1):
                for sw in itertools.combinations(names, k):
                    vres = [with_installed(variant_resolution(case, fo, order, sw), case) for fo, (_sm, order) in zip(orders, arrs)]
                    if vres != resolutions:
                        continue
                    vcase = dict(case, _sw=sw)
                    if assemble(case, exp_res, vres, arrs, model_runs(vcase, vres[0])) == observed:
                        variant = list(sw)
                        break
                if variant:
                    break
            if variant:
                diff = diff_packages(expected, observed)
                allowed = set().union(*[shapes[s] for s in variant])
                if diff is not None and not diff <= allowed:
                    variant = None

        kinds = {l["k"] for _f, l in case["lines"]}
        classes = ["perms-exhaustive" if exhaustive else "perms-random", "allow" if case["allow"] else "deny",
                   "installer-" + case.get("installer", "ok"), f"files={len(case['slots'])}"]
        classes += ["has-" + k for k in sorted(kinds)]
        n_arr = len(arrs)
        classes.append("arrangements=" + ("1" if n_arr == 1 else "2-6" if n_arr <= 6 else "7-24" if n_arr <= 24 else "25-120"))
        pins = [l["v"] for _f, l in case["lines"] if l["k"] == "pin"]
        if len({canon(v) for v in pins}) < len(set(pins)):
            classes.append("equal-versions-spelt-differently")
        if any(v is not None and p not in case.get("recorded", {}) for p, v in case.get("installed", {}).items()):
            classes.append("host-installed-package")
        if case.get("recorded"):
            classes.append("recorded-package")
        if any(r["installer"] for r in expected["runs"]):
            classes.append("expects-install")
        return {
            "expected": expected, "observed": observed, "nontrivial": self.nontrivial(case), "classes": classes,
            "variant": variant,
            "detail": {"files": files_of(case), "arrangements": len(arrs), "variant": variant},
        }

    def nontrivial(self, case):
        seen = {}
        for f, l in case["lines"]:
            if l["k"] in MENTION_KINDS:
                d = seen.setdefault(l["p"], {})
                d.setdefault(f, set()).add((l["k"], l.get("v")))
        for p, per_file in seen.items():
            if len(per_file) >= 2 and len(set().union(*per_file.values())) >= 2:
                return True
        return False

    def bucket(self, case, r):
        e, o = r["expected"], r["observed"]
        if e["resolution"] != o["resolution"]:
            part = "resolution"
        elif o["n_permutation_deviations"]:
            part = "order-dependent"
        else:
            part = "laws"
            for i, (re_, ro) in enumerate(zip(e["runs"], o["runs"])):
                for key in ("error", "installer", "record", "persisted", "host_changed"):
                    if re_[key] != ro[key]:
                        part = f"run{i + 1}-{key}"
                        break
                if part != "laws":
                    break
        kinds = {l["k"] for _f, l in case["lines"]}
        extra = "+".join(sorted(kinds & {"badpin", "compat", "unsup", "unpinned"}))
        return f"{part}|allow={case['allow']}|{extra or 'pins'}"

    def attribute(self, case, r):
        variant = r.get("variant")
        if not variant:
            return None
        status = {f["id"]: str(f.get("status", "open")) for f in core.load_findings(PROP)}
        ids = [fid for sw, fid in SWITCH_IDS if sw in variant]
        if any(status.get(fid, "open") != "open" for fid in ids):
            return None  # a finding recorded as fixed must not absorb anything any more
        return ids[0]


CHECK = C20()


def run_shard(tier, i, n):
    return CHECK.run_shard(tier, i, n)


def replay(path):
    return CHECK.replay(path)


def main(tier):
    return CHECK.main(tier, extra={
        "exhaustive": False,
        "exhaustive_parts": {
            "permutations": "all arrangements (files over locations x lines inside files) of every case with <= 5 lines",
            "small_sets": f"all multisets of <= {3 if tier == 'quick' else 4} lines from the 9-line alphabet x file splits x 8 environment combinations",
        },
        "finding_ids_recognised": [fid for _sw, fid in SWITCH_IDS],
    })
