"""C05 - state_check_now / state_hold / state_hold_false timing on a virtual clock, decorator and wait_until."""

from __future__ import annotations

import itertools

from vlib import core, l3
from vlib.modelcheck import ModelCheck

PROP = "C05"
S_HOLD = 5.1
H_FALSE = 7.1
SHIFT = 0.25  # events happen at grid time + SHIFT after the definition instant
TOL = 0.005
EXPR = "pyscript.v in ['1', '2']"

OPS = ["true1", "true2", "false", "unwatched", "attr"]
GAPS = [0.5, 1.0, 2.5, 4.0, 6.0, 8.0, 11.0]


def script(cfg):
    kw = []
    if cfg["check_now"] is not None:
        kw.append(f"state_check_now={cfg['check_now']}")
    if cfg["hold"] is not None:
        kw.append(f"state_hold={cfg['hold']}")
    if cfg["hold_false"] is not None:
        kw.append(f"state_hold_false={cfg['hold_false']}")
    if cfg["form"] == "decorator":
        return (
            f"@state_trigger(\"{EXPR}\"{''.join(', ' + k for k in kw)})\n"
            "def f(trigger_type=None, var_name=None, value=None, old_value=None, **kw):\n"
            "    vrec('run', trigger_type, var_name, None if value is None else str(value), None if old_value is None else str(old_value))\n"
        )
    return (
        "@time_trigger('startup')\n"
        "def w():\n"
        f"    r = task.wait_until(state_trigger=\"{EXPR}\"{''.join(', ' + k for k in kw)})\n"
        "    vrec('run', r.get('trigger_type'), r.get('var_name'), None if r.get('value') is None else str(r.get('value')), None if r.get('old_value') is None else str(r.get('old_value')))\n"
    )


def model(case):
    """Reference timeline model written from docs/reference.rst (see DESIGN.md 2.C05)."""
    cfg = case["cfg"]
    hold, hold_false = cfg["hold"], cfg["hold_false"]
    check_now = cfg["check_now"]
    if check_now is None:
        check_now = cfg["form"] == "wait_until"
    v = cfg["initial"]  # '0' or '1'
    attr = 0
    u = 0
    runs = []
    pending = None
    false_since = None
    t0 = 0.0
    truth = lambda val: val in ("1", "2")
    done = False

    def run(t, args):
        nonlocal done
        if done:
            return
        runs.append([round(t, 3)] + list(args))
        if cfg["form"] == "wait_until":
            done = True

    def flush(t_limit):
        nonlocal pending
        if pending is not None and pending[0] + hold <= t_limit:
            run(pending[0] + hold, pending[1])
            pending = None

    def occurrence(t, args):
        nonlocal pending
        if hold is None:
            run(t, args)
        elif pending is None:
            pending = (t, args)

    b0 = truth(v)
    if hold_false is not None:
        false_since = None if b0 else t0
    if check_now and b0:
        occurrence(t0, ["state", None, None, None])
    t = SHIFT
    for gap, op in case["ops"]:
        t += gap
        flush(t)
        if done:
            break
        old = v
        if op in ("true1", "true2", "false"):
            new = {"true1": "1", "true2": "2", "false": "0"}[op]
            if new == v:
                continue  # identical re-set: Home Assistant emits no event
            v = new
            b = truth(v)
            args = ["state", "pyscript.v", v, old]
            if not b:
                pending = None
                if hold_false is not None and false_since is None:
                    false_since = t
            else:
                if hold_false is not None:
                    if false_since is None:
                        continue
                    if t - false_since < hold_false:
                        false_since = None
                        continue
                    false_since = None
                    occurrence(t, args)
                else:
                    occurrence(t, args)
        elif op == "unwatched":
            u += 1
        elif op == "attr":
            attr += 1
    flush(t + 30.0)
    return runs


async def execute(case, legacy):
    cfg = case["cfg"]
    init = {"pyscript.v": (cfg["initial"], {"a": 0}), "pyscript.u": ("0", {})}
    async with l3.Integ({"hello.py": script(cfg)}, legacy=legacy, initial_states=init, autostart=False) as it:
        # definition instant == virtual 0 of the model: measure relative to the start instant
        t_start = it.vt()
        await it.start()
        t = 0.0
        attr = 0
        u = 0
        for gap, op in case["ops"]:
            t += gap
            await it.sleep_until(t_start + t + 0.25)
            cur = it.hass.states.get("pyscript.v")
            if op in ("true1", "true2", "false"):
                new = {"true1": "1", "true2": "2", "false": "0"}[op]
                it.set_state("pyscript.v", new, dict(cur.attributes))
            elif op == "unwatched":
                u += 1
                it.set_state("pyscript.u", str(u))
            elif op == "attr":
                attr += 1
                it.set_state("pyscript.v", cur.state, {"a": attr})
            await it.settle(1)
        await it.sleep_until(t_start + t + 0.25 + 30.0)
        recs = []
        for vt, args, kw in it.records:
            if args and args[0] == "run":
                rel = vt - t_start
                recs.append([rel] + list(args[1:]))
        errs = it.errors()
        await it.unload()
    return recs, errs


def normalise(expected, observed_raw):
    """Observed event times are offset by +0.25 (the grid shift) for events; the definition instant is 0."""
    obs = []
    for r in observed_raw:
        obs.append([r[0]] + r[1:])
    return obs


def times_match(exp, obs):
    """Compare run lists: same length, same args, times equal within tolerance (events happen at t+0.25)."""
    if len(exp) != len(obs):
        return False
    for e, o in zip(exp, obs):
        if e[1:] != o[1:]:
            return False
        if abs(o[0] - e[0]) > TOL:
            return False
    return True


class C05(ModelCheck):
    prop = PROP
    rule = (
        "configurations state_check_now in {unset, False, True} x state_hold in {None, 0, 5.1} x state_hold_false in "
        "{None, 0, 7.1} x initial truth x {decorator, task.wait_until} x {new, legacy subsystem}; timed histories of "
        "{make true (two distinct true values), make false, change an unwatched entity, attribute-only update} with gaps "
        "from a 0.5 s grid (events at x.25/x.75 after the definition instant, deadlines at x.1/x.35/x.6/x.85: no ties) on the virtual clock: exhaustive for all "
        "histories of length <= 2 (quick) / <= 3 (thorough) over gaps {1.0, 11.0}, random to length 12. Oracle: the "
        "timeline state machine of DESIGN.md 2.C05 (times within 5 ms, arguments of the first event). Non-trivial = an "
        "evaluation happens while a hold is pending or a false-period is running; distinct by (configuration, history)."
    )
    assumptions = [
        "virtual clock: harness-patched trigger.dt_now / time.monotonic; Home Assistant's own state machine is trusted",
        "both subsystems are compared with the same model",
    ]

    def configs(self):
        out = []
        for cn, hold, hf, init, form in itertools.product([None, False, True], [None, 0, S_HOLD], [None, 0, H_FALSE], ["0", "1"], ["decorator", "wait_until"]):
            out.append({"check_now": cn, "hold": hold, "hold_false": hf, "initial": init, "form": form})
        return out

    def exhaustive_cases(self, tier):
        maxlen = {"quick": 2, "thorough": 3}[tier]
        ops = ["true1", "true2", "false", "attr"]
        cases = []
        for cfg in self.configs():
            for n in range(0, maxlen + 1):
                for hist in itertools.product(itertools.product([1.0, 11.0], ops), repeat=n):
                    for legacy in (False, True):
                        cases.append({"cfg": cfg, "legacy": legacy, "ops": [list(x) for x in hist]})
        return cases

    def n_random(self, tier):
        return {"quick": 1500, "thorough": 60000}[tier]

    def regress_cases(self):
        return self.fixed_regress()

    def gen(self, R):
        cfg = {
            "check_now": R.choice([None, False, True]),
            "hold": R.choice([None, S_HOLD, 0]),
            "hold_false": R.choice([None, H_FALSE, 0]),
            "initial": R.choice(["0", "1"]),
            "form": R.choice(["decorator", "wait_until"]),
        }
        n = R.int(1, 12)
        ops = [[R.choice(GAPS), R.weighted([(3, "true1"), (2, "true2"), (3, "false"), (1, "unwatched"), (2, "attr")])] for _ in range(n)]
        return {"cfg": cfg, "legacy": R.bool(), "ops": ops}

    def run(self, case):
        exp = model(case)
        obs, errs = l3.run_case(execute, case, case["legacy"])
        ok = times_match(exp, obs)
        nontrivial = self.nontrivial(case)
        return {
            "expected": exp,
            "observed": [[round(o[0], 3)] + o[1:] for o in obs],
            "match": ok,
            "nontrivial": nontrivial,
            "classes": [case["cfg"]["form"], "legacy" if case["legacy"] else "new"] + (["has_attr_op"] if any(o[1] == "attr" for o in case["ops"]) else []),
            "detail": {"errors": errs[:3]},
        }

    def mismatch(self, result):
        return not result["match"]

    def nontrivial(self, case):
        cfg = case["cfg"]
        if cfg["hold"] in (None, 0) and cfg["hold_false"] is None:
            return False
        return len([o for o in case["ops"] if o[1] in ("true1", "true2", "false")]) >= 2

    def bucket(self, case, result):
        cfg = case["cfg"]
        kind = "count" if len(result["expected"]) != len(result["observed"]) else "args-or-time"
        return f"{cfg['form']}|{'legacy' if case['legacy'] else 'new'}|hold={cfg['hold'] is not None}|hf={cfg['hold_false'] is not None}|{kind}"

    def attribute(self, case, result):
        for f in core.open_findings(PROP):
            fn = ATTRIBUTORS.get(f["id"])
            if fn and fn(case, result):
                return f["id"]
        return None


ATTRIBUTORS = {}

CHECK = C05()


def run_shard(tier, i, n):
    return CHECK.run_shard(tier, i, n)


def replay(path):
    return CHECK.replay(path)


def main(tier):
    return CHECK.main(tier)
