"""C13 - task.unique guarantees at most one live owner per name (schedules on the virtual clock)."""

from __future__ import annotations

import json

from vlib import core, l3
from vlib.modelcheck import ModelCheck

PROP = "C13"
NAMES = ["n1", "n2", "n3"]

HELPER = """
def claim(name, kill_me=False):
    task.unique(name, kill_me=kill_me)
"""

SCRIPT = """
from helper import claim
tasks = {}

@service
def run_{c}(pid=None, steps=None):
    vreg(pid)
    tasks[pid] = task.current_task()
    vrec('begin', pid)
    for i in range(len(steps)):
        st = steps[i]
        vrec('step', pid, i)
        if st[0] == 'unique':
            task.unique(st[1], kill_me=st[2])
        elif st[0] == 'unique_m':
            claim(st[1], st[2])
        elif st[0] == 'sleep':
            task.sleep(st[1])
        elif st[0] == 'raise':
            raise ValueError('boom')
        elif st[0] == 'cancel':
            try:
                task.cancel(tasks[st[1]])
            except (KeyError, TypeError):
                pass
        vrec('done', pid, i)
    vrec('end', pid)

@event_trigger('deco_ev_{c}')
@task_unique('dec_name'{km})
def deco_{c}(pid=None, dur=None, **kw):
    vreg(pid)
    vrec('begin', pid)
    task.sleep(dur)
    vrec('end', pid)
"""


def gen(R):
    n = R.int(3, 5)
    tasks = []
    same_instant = R.bool(1, 3)
    for k in range(n):
        steps = []
        for _ in range(R.int(1, 4)):
            kind = R.weighted([(5, "unique"), (4, "sleep"), (1, "raise"), (2, "cancel"), (2, "cancel_kill_me")])
            if kind == "unique":
                # one in five claims goes through a function of a shared module: task.unique then works on the names
                # of the module's global context, which every script that calls the helper shares
                steps.append(["unique_m" if R.bool(1, 5) else "unique", R.choice(NAMES), R.bool(1, 3)])
            elif kind == "sleep":
                steps.append(["sleep", R.choice([1.0, 2.0, 5.0])])
            elif kind == "cancel":
                steps.append(["cancel", f"p{R.choice([x for x in range(n) if x != k])}"])  # never the own task (delivery instant differs)
            elif kind == "cancel_kill_me":
                # the reaper is busy with another request when the caller loses a kill_me contest
                steps.append(["cancel", f"p{R.choice([x for x in range(n) if x != k])}"])
                steps.append(["unique", R.choice(NAMES), True])
            else:
                steps.append(["raise"])
        if not any(s[0] == "sleep" for s in steps):
            steps.append(["sleep", R.choice([2.0, 5.0])])
        start = float(R.int(0, 6))
        off = 0.0 if same_instant and R.bool() else round(0.01 * (k + 1), 2)
        deco = R.bool(1, 8)
        tasks.append({"pid": f"p{k}", "ctx": R.choice(["a", "a", "b"]), "start": start + off, "steps": steps, "deco": deco, "dur": R.choice([2.0, 5.0])})
    if R.bool(1, 4):
        # structured burst: one live owner of a name and two or more tasks that claim it in the same loop instant
        name, ctx, at = R.choice(NAMES), R.choice(["a", "b"]), float(R.int(1, 3))
        tasks[0].update(ctx=ctx, start=0.0, steps=[["unique", name, False], ["sleep", 5.0]] + tasks[0]["steps"][:1], deco=False)
        for k in range(1, min(n, R.int(3, 5))):
            tasks[k].update(ctx=ctx, start=at, steps=[["unique", name, R.bool(1, 5)], ["sleep", R.choice([2.0, 5.0])]] + tasks[k]["steps"][:1], deco=False)
    outside = []
    if R.bool(1, 3):
        outside.append({"at": float(R.int(1, 7)) + 0.5, "ctx": R.choice(["a", "b"]), "name": R.choice(NAMES), "kill_me": R.bool(1, 3)})
    return {"legacy": R.bool(), "tasks": tasks, "outside": outside, "deco_kill_me": R.bool(1, 3)}


def distinct_offsets(case):
    times = [round(t["start"] % 1.0, 2) for t in case["tasks"]]
    return len(set(times)) == len(times) and not case["outside"] and not any(t["deco"] for t in case["tasks"])


def exact_model(case):
    """Sequential model for schedules in which no two tasks are ever runnable at the same instant.
    Returns per pid the list of markers ('step'/'done' indices, 'end', 'killed')."""
    tasks = {t["pid"]: t for t in case["tasks"]}
    state = {p: {"i": 0, "alive": False, "log": [], "names": set(), "started": False} for p in tasks}
    owner = {}  # (ctx, name) -> pid
    events = [(t["start"], idx, t["pid"]) for idx, t in enumerate(case["tasks"])]

    def kill(p):
        st = state[p]
        if st["alive"]:
            st["alive"] = False
            st["log"].append("killed")
            for key in [k for k, v in owner.items() if v == p]:
                del owner[key]

    import heapq

    heapq.heapify(events)
    seq = 100
    while events:
        t, _, p = heapq.heappop(events)
        st = state[p]
        if not st["started"]:
            st["started"] = True
            st["alive"] = True
            st["log"].append("begin")
        if not st["alive"]:
            continue
        ctx = tasks[p]["ctx"]
        steps = tasks[p]["steps"]
        pending = []
        while st["alive"] and st["i"] < len(steps):
            s = steps[st["i"]]
            if not s[0] == "sleep" or not st.get("sleeping"):
                st["log"].append(f"step{st['i']}")
            if s[0] in ("unique", "unique_m"):
                key = (ctx if s[0] == "unique" else "M", s[1])
                cur = owner.get(key)
                if s[2]:
                    if cur is not None and cur != p:
                        kill(p)
                        break
                elif cur is not None and cur != p:
                    pending.append(cur)  # cancelled by the reaper once the caller suspends; its other names stay until then
                owner[key] = p
            elif s[0] == "sleep":
                if not st.get("sleeping"):
                    st["sleeping"] = True
                    st["log"].pop()  # re-added below in order
                    st["log"].append(f"step{st['i']}")
                    seq += 1
                    heapq.heappush(events, (t + s[1], seq, p))
                    break
                st["sleeping"] = False
            elif s[0] == "cancel":
                # task.cancel(other) is delivered by the reaper once the caller suspends or ends: until then the
                # target is still a live owner of its names
                tgt = s[1]
                if tgt in state and tgt != p and tasks[tgt]["ctx"] == ctx:
                    pending.append(tgt)
            elif s[0] == "raise":
                st["alive"] = False
                st["log"].append("raised")
                for key in [k for k, v in owner.items() if v == p]:
                    del owner[key]
                break
            st["log"].append(f"done{st['i']}")
            st["i"] += 1
        for tgt in pending:
            if state[tgt]["alive"] and tgt != p:
                kill(tgt)
        if st["alive"] and st["i"] >= len(steps):
            st["log"].append("end")
            st["alive"] = False
            for key in [k for k, v in owner.items() if v == p]:
                del owner[key]
    return {p: state[p]["log"] for p in tasks}


async def execute(case):
    import asyncio

    from custom_components.pyscript.eval import AstEval
    from custom_components.pyscript.function import Function
    from custom_components.pyscript.global_ctx import GlobalContextMgr

    km = ", kill_me=True" if case["deco_kill_me"] else ""
    files = {"a.py": SCRIPT.replace("{c}", "a").replace("{km}", km), "b.py": SCRIPT.replace("{c}", "b").replace("{km}", km), "modules/helper.py": HELPER}
    async with l3.Integ(files, legacy=case["legacy"]) as it:
        task_of = {}
        Function.functions["vreg"] = lambda pid: task_of.__setitem__(pid, asyncio.current_task())
        t0 = it.vt()
        problems = []
        foreign_cancelled = []

        async def foreign(o):
            gctx = GlobalContextMgr.get(f"file.{o['ctx']}")
            ast_ctx = AstEval(f"file.{o['ctx']}", gctx)
            Function.install_ast_funcs(ast_ctx)
            # the foreign task stays alive for a while as owner of the name, so that later claims meet it
            ast_ctx.parse(f"task.unique({o['name']!r}, kill_me={o['kill_me']})\ntask.sleep(3)")
            try:
                await ast_ctx.eval()
            except asyncio.CancelledError:
                foreign_cancelled.append(o)
                raise

        ftasks = []
        schedule = sorted([(t["start"], "task", t) for t in case["tasks"]] + [(o["at"], "outside", o) for o in case["outside"]], key=lambda x: x[0])
        snapshots = []

        def snapshot(label):
            reg = {k: v for k, v in Function.unique_name2task.items()}
            alive = {p: (not tk.done()) for p, tk in task_of.items()}
            owners = {}
            for name, tk in reg.items():
                pid = next((p for p, x in task_of.items() if x is tk), "foreign" if tk in ftasks else "unknown")
                owners[name] = pid
            snapshots.append({"t": round(it.vt() - t0, 2), "label": label, "owners": owners, "alive": alive})

        i = 0
        while i < len(schedule):
            at = schedule[i][0]
            await it.sleep_spin(t0 + at)
            while i < len(schedule) and schedule[i][0] == at:
                _, kind, obj = schedule[i]
                if kind == "task":
                    if obj["deco"]:
                        it.fire(f"deco_ev_{obj['ctx']}", {"pid": obj["pid"], "dur": obj["dur"]})
                    else:
                        await it.hass.services.async_call("pyscript", f"run_{obj['ctx']}", {"pid": obj["pid"], "steps": obj["steps"]}, blocking=False)
                else:
                    ftasks.append(asyncio.get_running_loop().create_task(foreign(obj)))
                i += 1
            await it.spin()
            snapshot(f"after@{at}")
        for extra in range(30):
            await it.sleep_spin(it.vt() + 0.5)
            snapshot("tick")
        await it.sleep(12)
        await it.settle(2)
        snapshot("final")
        # name2id from each context
        n2i = {}
        for c in ("a", "b"):
            gctx = GlobalContextMgr.get(f"file.{c}")
            ast_ctx = AstEval(f"file.{c}", gctx)
            Function.install_ast_funcs(ast_ctx)
            ast_ctx.parse("_n2i = task.name2id()")
            await ast_ctx.eval()
            n2i[c] = sorted(gctx.global_sym_table.get("_n2i", {}).keys())
        logs = {}
        times = {}
        for vt, a, kw in it.records:
            tag = a[0] if len(a) < 3 else f"{a[0]}{a[2]}"
            logs.setdefault(a[1], []).append(tag)
            times.setdefault(a[1], {})[tag] = round(vt - t0, 3)
        for ft in ftasks:
            if not ft.done():
                ft.cancel()
        leftovers = {"unique_name2task": len(Function.unique_name2task), "unique_task2name": len(Function.unique_task2name)}
        cancelled = {p: (tk.done() and tk.cancelled()) for p, tk in task_of.items()}
        errs = [e[2][-400:] for e in it.errors()]
        await it.unload()
    return {"logs": logs, "times": times, "snapshots": snapshots, "n2i": n2i, "foreign_cancelled": foreign_cancelled, "leftovers": leftovers, "cancelled": cancelled, "errors": errs}


def regkey(ctx, name):
    """Registry key of a name: the claiming function's global context is file.<ctx>, or the shared helper module's."""
    return f"modules.helper.{name}" if ctx == "M" else f"file.{ctx}.{name}"


def invariants(case, r):
    problems = []
    claimed = {}  # (ctx, name) -> set of pids that completed a unique step on it
    claim_time = {}
    ctx_of = {t["pid"]: t["ctx"] for t in case["tasks"]}
    for t in case["tasks"]:
        log = r["logs"].get(t["pid"], [])
        tm = r["times"].get(t["pid"], {})
        if t["deco"]:
            if "begin" in log:
                claimed.setdefault((t["ctx"], "dec_name"), set()).add(t["pid"])
                claim_time[(t["pid"], t["ctx"], "dec_name")] = tm.get("begin", 0)
            continue
        for i, s in enumerate(t["steps"]):
            if s[0] in ("unique", "unique_m") and f"done{i}" in log:
                c_ = t["ctx"] if s[0] == "unique" else "M"
                claimed.setdefault((c_, s[1]), set()).add(t["pid"])
                claim_time.setdefault((t["pid"], c_, s[1]), tm.get(f"done{i}", 0))
    for snap in r["snapshots"]:
        for (ctx, name), pids in claimed.items():
            alive = [p for p in pids if snap["alive"].get(p)]
            key = regkey(ctx, name)
            own = snap["owners"].get(key)
            # tasks that claimed the name and are still alive at this instant: at most one... among those whose claim
            # already happened by now; claims are only known from the final log, so compare against the registry:
            if own is not None and own in snap["alive"] and not snap["alive"][own]:
                problems.append("registry-lists-dead-task")
        # a name's owner must be a live task of the same context
        for key, own in snap["owners"].items():
            parts = key.split(".")
            if own in ctx_of and parts[0] != "modules" and f"file.{ctx_of[own]}" != ".".join(parts[:2]):
                problems.append("cross-context-owner")
    final = r["snapshots"][-1]
    if any(v for v in final["alive"].values()):
        problems.append("task-still-alive-at-end")
    if final["owners"] or r["leftovers"]["unique_name2task"] or r["leftovers"]["unique_task2name"]:
        problems.append("names-not-released")
    if any(r["n2i"].values()):
        problems.append("name2id-lists-ended-task")
    if r["foreign_cancelled"]:
        problems.append("foreign-task-cancelled")
    # at most one live claimant per name at every snapshot: a claimant is live if it is alive and has not been displaced
    for snap in r["snapshots"]:
        for (ctx, name), pids in claimed.items():
            key = regkey(ctx, name)
            own = snap["owners"].get(key)
            live_claimants = [p for p in pids if snap["alive"].get(p) and claim_time.get((p, ctx, name), 1e9) <= snap["t"]]
            if own is None and live_claimants and snap["label"] == "final":
                problems.append("live-claimant-without-registry")
            if own is not None and own in pids:
                others = [p for p in live_claimants if p != own]
                # others may be alive only if they claimed the name *after*... impossible: the registry holds the last claimant
                if others and snap["label"] in ("tick", "final"):
                    problems.append("two-live-claimants")
    # a killed (cancelled) task writes nothing after its last recorded marker: its log must not contain 'end'
    for p, was_cancelled in r["cancelled"].items():
        if was_cancelled and "end" in r["logs"].get(p, []):
            problems.append("cancelled-task-finished")
    return sorted(set(problems))


class C13(ModelCheck):
    prop = PROP
    rule = (
        "bounded-exhaustive: every pair (quick) / triple (thorough) of two-step programs over {unique(n1), unique(n1, kill_me), unique(n2), sleep} x "
        "every assignment of start instants from {same instant, 1 s later}; random: schedules of 3-5 tasks (service calls) each running a program of {task.unique(name, kill_me), task.sleep(d), "
        "raise, finish} over 3 names and 2 global contexts, started at generated instants (distinct per-task offsets, or "
        "identical instants for same-instant contention), optionally a @task_unique-decorated service and a "
        "task.unique call issued from a task not started by pyscript; one in five claims is made through a function of a shared module (it then works on the module context's names, shared by every script that calls it); on the virtual clock, both subsystems. Oracle: "
        "invariants at every sampled quiescent instant (registry never lists an ended task, owners never cross "
        "contexts, at most one live claimant per name, names released when the owner ends for any reason, task.name2id "
        "agrees with the registry, the foreign task is never cancelled, a cancelled task never reaches its end marker) "
        "and, for schedules without same-instant contention, an exact sequential model of every task's marker log (who "
        "is killed at which step). Non-trivial = >= 2 tasks contend for one name in one context; distinct by schedule."
    )
    assumptions = ["schedules are those a single event loop can produce; the harness owns every wake-up", "release 'as soon as the owner ends' is judged at the next quiescent instant"]

    def n_random(self, tier):
        return {"quick": 1800, "thorough": 40000}[tier]

    def gen(self, R):
        return gen(R)

    def exhaustive_cases(self, tier):
        """Bounded-exhaustive schedules: k tasks in one context, each running every program of two steps from a small
        alphabet followed by a sleep, with every assignment of start instants from {same instant, 1 s later} (the
        first task always at 0) - k = 2 in quick, k = 3 in thorough - in the new subsystem; legacy for a third."""
        import itertools

        alphabet = [["unique", "n1", False], ["unique", "n1", True], ["unique", "n2", False], ["sleep", 1.0]]
        progs = [list(p) for p in itertools.product(alphabet, repeat=2)]
        k = 2 if tier == "quick" else 3
        cases = []
        for combo in itertools.product(range(len(progs)), repeat=k):
            if not any(st[0] == "unique" and st[1] == "n1" for ci in combo for st in progs[ci]):
                continue
            for starts in itertools.product([0.0, 1.0], repeat=k - 1):
                tasks = []
                for j, ci in enumerate(combo):
                    steps = [list(st) for st in progs[ci]] + [["sleep", 2.0]]
                    tasks.append({"pid": f"p{j}", "ctx": "a", "start": 0.0 if j == 0 else starts[j - 1], "steps": steps, "deco": False, "dur": 2.0})
                cases.append({"legacy": len(cases) % 3 == 2, "tasks": tasks, "outside": [], "deco_kill_me": False})
        return cases

    def run(self, case):
        case = json.loads(json.dumps(case))
        r = l3.run_case(execute, case)
        problems = invariants(case, r)
        exp_logs = None
        if distinct_offsets(case):
            exp_logs = exact_model(case)
            obs_logs = {p: [x for x in r["logs"].get(p, [])] for p in exp_logs}
            exp_cmp = {p: [x for x in v if x not in ("killed", "raised")] for p, v in exp_logs.items()}
            if exp_cmp != obs_logs:
                problems.append("marker-log")
            for p, v in exp_logs.items():
                if ("killed" in v) != bool(r["cancelled"].get(p)):
                    problems.append("cancelled-set")
        names = {}
        for t in case["tasks"]:
            for s in t["steps"]:
                if s[0] in ("unique", "unique_m"):
                    names.setdefault((t["ctx"] if s[0] == "unique" else "M", s[1]), set()).add(t["pid"])
        nt = any(len(v) >= 2 for v in names.values())
        # the only error a schedule may log is the ValueError('boom') of a raise step
        if any("boom" not in e for e in r["errors"]):
            problems.append("unexpected-error-logged")
        return {"expected": {"problems": [], "logs": exp_logs}, "observed": {"problems": sorted(set(problems)), "logs": r["logs"], "cancelled": r["cancelled"], "foreign": r["foreign_cancelled"]},
                "nontrivial": nt, "classes": ["exact-model" if exp_logs is not None else "invariants-only", "legacy" if case["legacy"] else "new"] + (["outside"] if case["outside"] else []),
                "detail": {"errors": r["errors"][:2]}}

    def mismatch(self, r):
        return bool(r["observed"]["problems"])

    def bucket(self, case, r):
        return ("legacy" if case["legacy"] else "new") + "|" + ",".join(r["observed"]["problems"])

    shrink_key = "tasks"

    def attribute(self, case, r):
        ids = {f["id"] for f in core.open_findings(PROP)}
        if "C13-foreign-caller-kill-me-cancelled" in ids and r["observed"]["problems"] == ["foreign-task-cancelled"]:
            if all(o["kill_me"] for o in r["observed"]["foreign"]):
                return "C13-foreign-caller-kill-me-cancelled"
        return None


CHECK = C13()


def run_shard(tier, i, n):
    return CHECK.run_shard(tier, i, n)


def replay(path):
    return CHECK.replay(path)


def main(tier):
    return CHECK.main(tier)
