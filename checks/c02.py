"""C02 - control flow and exception paths: pyscript vs CPython on generated skeleton programs."""

from __future__ import annotations

import ast
import asyncio

from vlib import core, l1
from vlib.diffcheck import DiffCheck, node_types

PROP = "C02"
RULE = (
    "control-flow skeletons wrapped in a function: (a) exhaustive nesting of 24 construct/slot shapes "
    "(if, for[-else], while[-else], try-except (typed / tuple / bare handlers), try-finally, "
    "try-except-else-finally, with (1-2 managers, suppressing or not), function boundary) to depth 2 (quick) / "
    "3 (thorough), the deepest slot holding each of {fall-through, break, continue, return, raise of three "
    "exception classes, bare re-raise, raise-from, assert}; all other slots hold a tracer so their execution is "
    "observed; (b) Hypothesis-generated skeletons to depth 6 with several statements per block and parameterised "
    "context managers (suppress / __enter__ raises / __exit__ raises / no __exit__). Compared with CPython: tracer "
    "log, returned value, propagated exception type, __cause__ type and __suppress_context__. Non-trivial = >= 2 "
    "nested compound statements and CPython executed >= 1 jump statement (break/continue/return/raise); distinct by source."
)

PRELUDE = "class MyErr(Exception):\n    pass\n"


def make_inject(tr):
    class CM:
        def __init__(self, name, suppress=False, enter_raises=False, exit_raises=False):
            self.name, self.suppress, self.enter_raises, self.exit_raises = name, suppress, enter_raises, exit_raises

        def __enter__(self):
            tr.log.append((self.name + ".enter", ""))
            if self.enter_raises:
                raise LookupError(self.name)
            return self.name

        def __exit__(self, t, v, tb):
            tr.log.append((self.name + ".exit", t.__name__ if t else "None"))
            if self.exit_raises:
                raise IndexError(self.name)
            return self.suppress

    class NoExit:
        def __enter__(self):
            tr.log.append(("noexit.enter", ""))
            return 1

    return {"CM": CM, "NoExit": NoExit}


# --------------------------------------------------------------------------------------
# (a) exhaustive skeletons
# --------------------------------------------------------------------------------------

LEAVES = ["T", "break", "continue", "return", "raiseK", "raiseV", "raiseM", "reraise", "raisefrom", "assert"]
# (name, n_slots)
SHAPES = [
    ("if_t", 0), ("if_f", 0), ("for", 0), ("forelse_b", 0), ("forelse_e", 0), ("while", 0), ("whileelse_b", 0),
    ("whileelse_e", 0), ("tryx_b", 0), ("tryx_h1", 0), ("tryx_h2", 0), ("trybare_b", 0), ("trybare_h", 0),
    ("trybare_bh", 0), ("tryfin_b", 0), ("tryfin_f", 0), ("tryfull_b", 0), ("tryfull_h", 0), ("tryfull_e", 0),
    ("tryfull_f", 0), ("with1", 0), ("with1s", 0), ("with2", 0), ("func", 0),
]


class Emit:
    def __init__(self):
        self.n = 0

    def tag(self, p="s"):
        self.n += 1
        return f"{p}{self.n}"

    def leaf(self, kind, ind):
        t = self.tag()
        pad = "    " * ind
        if kind == "T":
            return [f"{pad}T('{t}')"]
        if kind in ("break", "continue"):
            return [f"{pad}T('{t}')", f"{pad}{kind}"]
        if kind == "return":
            return [f"{pad}return T('{t}', '{t}')"]
        if kind == "raiseK":
            return [f"{pad}T('{t}')", f"{pad}raise KeyError('{t}')"]
        if kind == "raiseV":
            return [f"{pad}T('{t}')", f"{pad}raise ValueError('{t}')"]
        if kind == "raiseM":
            return [f"{pad}T('{t}')", f"{pad}raise MyErr('{t}')"]
        if kind == "reraise":
            return [f"{pad}T('{t}')", f"{pad}raise"]
        if kind == "raisefrom":
            return [f"{pad}T('{t}')", f"{pad}raise KeyError('{t}') from ValueError('c')"]
        if kind == "assert":
            return [f"{pad}assert T('{t}', 0), 'm{t}'"]
        raise AssertionError(kind)

    def T(self, ind):
        return self.leaf("T", ind)

    def shape(self, name, child, ind):
        """child: callable(ind) -> lines, placed in the designated slot."""
        pad = "    " * ind
        t = self.tag("c")
        L = []
        if name == "if_t":
            L += [f"{pad}if T('{t}', 1):"] + child(ind + 1) + [f"{pad}else:"] + self.T(ind + 1)
        elif name == "if_f":
            L += [f"{pad}if T('{t}', 0):"] + self.T(ind + 1) + [f"{pad}elif T('{t}b', 0):"] + self.T(ind + 1) + [f"{pad}else:"] + child(ind + 1)
        elif name == "for":
            L += [f"{pad}for i{t} in T('{t}', [1, 2]):"] + self.T(ind + 1) + child(ind + 1) + self.T(ind + 1)
        elif name == "forelse_b":
            L += [f"{pad}for i{t} in T('{t}', [1, 2]):"] + child(ind + 1) + [f"{pad}else:"] + self.T(ind + 1)
        elif name == "forelse_e":
            L += [f"{pad}for i{t} in T('{t}', [1]):"] + self.T(ind + 1) + [f"{pad}else:"] + child(ind + 1)
        elif name in ("while", "whileelse_b", "whileelse_e"):
            L += [f"{pad}n{t} = 0", f"{pad}while T('{t}', n{t} < 2):", f"{pad}    n{t} += 1"]
            if name == "while":
                L += child(ind + 1) + self.T(ind + 1)
            elif name == "whileelse_b":
                L += child(ind + 1) + [f"{pad}else:"] + self.T(ind + 1)
            else:
                L += self.T(ind + 1) + [f"{pad}else:"] + child(ind + 1)
        elif name in ("tryx_b", "tryx_h1", "tryx_h2"):
            body = child(ind + 1) if name == "tryx_b" else self.leaf("raiseK" if name == "tryx_h1" else "raiseV", ind + 1)
            h1 = child(ind + 1) if name == "tryx_h1" else self.T(ind + 1)
            h2 = child(ind + 1) if name == "tryx_h2" else [f"{pad}    T('{self.tag()}', type(e{t}).__name__)"]
            L += [f"{pad}try:"] + body + [f"{pad}except KeyError:"] + h1 + [f"{pad}except (ValueError, IndexError) as e{t}:"] + h2
        elif name in ("trybare_b", "trybare_h", "trybare_bh"):
            body = child(ind + 1) if name == "trybare_b" else self.leaf("raiseM", ind + 1)
            hb = child(ind + 1) if name in ("trybare_h", "trybare_bh") else self.T(ind + 1)
            L += [f"{pad}try:"] + body + [f"{pad}except KeyError:"] + self.T(ind + 1) + [f"{pad}except:"] + hb
        elif name in ("tryfin_b", "tryfin_f"):
            body = child(ind + 1) if name == "tryfin_b" else self.T(ind + 1)
            fin = child(ind + 1) if name == "tryfin_f" else self.T(ind + 1)
            L += [f"{pad}try:"] + body + [f"{pad}finally:"] + fin
        elif name in ("tryfull_b", "tryfull_h", "tryfull_e", "tryfull_f"):
            body = child(ind + 1) if name == "tryfull_b" else (self.leaf("raiseV", ind + 1) if name == "tryfull_h" else self.T(ind + 1))
            h = child(ind + 1) if name == "tryfull_h" else self.T(ind + 1)
            e = child(ind + 1) if name == "tryfull_e" else self.T(ind + 1)
            f = child(ind + 1) if name == "tryfull_f" else self.T(ind + 1)
            L += [f"{pad}try:"] + body + [f"{pad}except ValueError as e{t}:"] + h + [f"{pad}else:"] + e + [f"{pad}finally:"] + f
        elif name == "with1":
            L += [f"{pad}with CM('{t}') as v{t}:"] + child(ind + 1)
        elif name == "with1s":
            L += [f"{pad}with CM('{t}', suppress=True):"] + child(ind + 1)
        elif name == "with2":
            L += [f"{pad}with CM('{t}a') as v{t}, CM('{t}b', suppress=True):"] + child(ind + 1)
        elif name == "func":
            L += [f"{pad}def g{t}():"] + child(ind + 1) + [f"{pad}    return T('{self.tag()}', 'g')", f"{pad}T('{self.tag()}', g{t}())"]
        else:
            raise AssertionError(name)
        L += self.T(ind)
        return L


LOOPS = {"for", "forelse_b", "while", "whileelse_b"}


def wrap(lines):
    return PRELUDE + "def f():\n" + "\n".join(lines) + "\n    T('end')\n    return 'end'\nr = f()"


def skeletons(depth):
    """All nestings of `depth` shapes x leaves; break/continue only when an enclosing loop body allows them."""
    import itertools

    names = [s for s, _ in SHAPES]
    out = []
    for d in range(1, depth + 1):
        for combo in itertools.product(names, repeat=d):
            # is the innermost slot inside a loop (not crossing a function boundary)?
            in_loop = False
            for nm in combo:
                if nm == "func":
                    in_loop = False
                elif nm in LOOPS:
                    in_loop = True
                elif nm in ("forelse_e", "whileelse_e"):
                    pass  # else-clause belongs to the enclosing loop
            for leaf in LEAVES:
                if leaf in ("break", "continue") and not in_loop:
                    continue
                out.append((combo, leaf))
    return out


def render(combo, leaf):
    em = Emit()

    def build(i, ind):
        if i == len(combo):
            return em.leaf(leaf, ind)
        return em.shape(combo[i], lambda ind2: build(i + 1, ind2), ind)

    return wrap(build(0, 1))


# --------------------------------------------------------------------------------------
# (b) random skeletons
# --------------------------------------------------------------------------------------


class Gen:
    def __init__(self, R, max_depth, feat):
        self.R = R
        self.max_depth = max_depth
        self.n = 0
        self.feat = feat
        self.budget = 60  # statements

    def tag(self, p="s"):
        self.n += 1
        return f"{p}{self.n}"

    def exc(self):
        return self.R.choice(["KeyError", "ValueError", "MyErr", "IndexError", "ZeroDivisionError", "LookupError"])

    def block(self, d, ind, in_loop, in_handler):
        n = self.R.weighted([(3, 1), (3, 2), (1, 3)])
        L = []
        for _ in range(n):
            L += self.stmt(d, ind, in_loop, in_handler)
        return L

    def stmt(self, d, ind, in_loop, in_handler):
        R = self.R
        pad = "    " * ind
        self.budget -= 1
        leafs = [(5, "T"), (2, "return"), (2, "raise"), (1, "assert"), (1, "div0"), (1, "raisefrom")]
        if in_loop:
            leafs += [(2, "break"), (2, "continue")]
        if in_handler:
            leafs += [(2, "reraise")]
        comp = [(3, "if"), (2, "for"), (2, "while"), (4, "try"), (3, "with"), (1, "func")]
        if d >= self.max_depth or self.budget <= 0:
            opts = leafs
        else:
            opts = leafs + [(w * 2, c) for w, c in comp]
        k = R.weighted(opts)
        t = self.tag()
        if k == "T":
            return [f"{pad}T('{t}')"]
        if k == "return":
            return [f"{pad}return T('{t}', {R.int(0, 3)})"]
        if k == "raise":
            guard = R.bool(1, 3)
            if guard:
                return [f"{pad}if T('{t}', {R.int(0, 1)}):", f"{pad}    raise {self.exc()}('{t}')"]
            return [f"{pad}T('{t}')", f"{pad}raise {self.exc()}('{t}')"]
        if k == "assert":
            return [f"{pad}assert T('{t}', {R.int(0, 1)}){R.choice(['', ', T(' + repr(t + 'm') + ')'])}"]
        if k == "div0":
            return [f"{pad}T('{t}', 1 // T('{t}d', {R.int(0, 1)}))"]
        if k == "raisefrom":
            return [f"{pad}raise {self.exc()}('{t}') from {R.choice(['None', 'ValueError(1)', 'KeyError(2)'])}"]
        if k in ("break", "continue"):
            if R.bool(1, 2):
                return [f"{pad}if T('{t}', {R.int(0, 1)}):", f"{pad}    {k}"]
            return [f"{pad}T('{t}')", f"{pad}{k}"]
        if k == "reraise":
            return [f"{pad}T('{t}')", f"{pad}raise"]
        if k == "if":
            L = [f"{pad}if T('{t}', {R.int(0, 1)}):"] + self.block(d + 1, ind + 1, in_loop, in_handler)
            if R.bool(1, 3):
                L += [f"{pad}elif T('{t}b', {R.int(0, 1)}):"] + self.block(d + 1, ind + 1, in_loop, in_handler)
            if R.bool():
                L += [f"{pad}else:"] + self.block(d + 1, ind + 1, in_loop, in_handler)
            return L
        if k == "for":
            it = R.choice(["[1, 2]", "[1]", "[]", "range(3)", "'ab'"])
            tgt = R.choice([f"i{t}", f"i{t}", f"(i{t}, j{t})" if False else f"i{t}"])
            L = [f"{pad}for {tgt} in T('{t}', {it}):"] + self.block(d + 1, ind + 1, True, in_handler)
            if R.bool(1, 3):
                L += [f"{pad}else:"] + self.block(d + 1, ind + 1, in_loop, in_handler)
            return L
        if k == "while":
            L = [f"{pad}n{t} = 0", f"{pad}while T('{t}', n{t} < {R.int(0, 3)}):", f"{pad}    n{t} += 1"]
            L += self.block(d + 1, ind + 1, True, in_handler)
            if R.bool(1, 3):
                L += [f"{pad}else:"] + self.block(d + 1, ind + 1, in_loop, in_handler)
            return L
        if k == "try":
            L = [f"{pad}try:"] + self.block(d + 1, ind + 1, in_loop, in_handler)
            nh = R.weighted([(1, 0), (4, 1), (2, 2)])
            has_fin = R.bool(1, 2) or nh == 0
            for hi in range(nh):
                form = R.weighted([(3, "one"), (2, "tuple"), (1, "bare"), (1, "base")])
                if form == "bare" and hi != nh - 1:
                    form = "one"
                asn = f" as e{t}" if R.bool() and form != "bare" else ""
                if form == "one":
                    L += [f"{pad}except {self.exc()}{asn}:"]
                elif form == "tuple":
                    L += [f"{pad}except ({self.exc()}, {self.exc()}){asn}:"]
                elif form == "base":
                    L += [f"{pad}except Exception{asn}:"]
                else:
                    L += [f"{pad}except:"]
                hb = self.block(d + 1, ind + 1, in_loop, True)
                if asn and R.bool(1, 2):
                    hb = [f"{pad}    T('{self.tag()}', type(e{t}).__name__)"] + hb
                L += hb
            if nh and R.bool(1, 3):
                L += [f"{pad}else:"] + self.block(d + 1, ind + 1, in_loop, in_handler)
            if has_fin:
                L += [f"{pad}finally:"] + self.block(d + 1, ind + 1, in_loop, in_handler)
            return L
        if k == "with":
            nm = R.weighted([(3, 1), (2, 2)])
            items = []
            for mi in range(nm):
                args = [f"'{t}{'ab'[mi]}'"]
                if R.bool(1, 3):
                    args.append("suppress=True")
                if R.bool(1, 8):
                    args.append("enter_raises=True")
                if R.bool(1, 8):
                    args.append("exit_raises=True")
                m = f"CM({', '.join(args)})"
                if R.bool(1, 25):
                    m = R.choice(["NoExit()", "5"])
                items.append(m + (f" as v{t}{mi}" if R.bool() else ""))
            L = [f"{pad}with {', '.join(items)}:"] + self.block(d + 1, ind + 1, in_loop, in_handler)
            return L
        if k == "func":
            L = [f"{pad}def g{t}():"] + self.block(d + 1, ind + 1, False, False) + [f"{pad}    return '{t}'"]
            if R.bool():
                L += [f"{pad}T('{self.tag()}', g{t}())"]
            else:
                L += [f"{pad}try:", f"{pad}    T('{self.tag()}', g{t}())", f"{pad}except {self.exc()}:", f"{pad}    T('{self.tag()}')"]
            return L
        raise AssertionError(k)

    def program(self):
        return wrap(self.block(0, 1, False, False))


# --------------------------------------------------------------------------------------
# known findings
# --------------------------------------------------------------------------------------


def pred_baseexception(tree, kinds):
    # a BaseException subclass that is not an Exception is not catchable by `except` in pyscript
    return any(
        isinstance(n, ast.ClassDef) and any(isinstance(b, ast.Name) and b.id == "BaseException" for b in n.bases)
        for n in ast.walk(tree)
    )


PREDICATES = {"C02-baseexception-not-caught": pred_baseexception}

JUMPS = (ast.Break, ast.Continue, ast.Return, ast.Raise)


def is_nontrivial(src, o1):
    try:
        tree = ast.parse(src)
    except SyntaxError:
        return False
    comp = sum(isinstance(n, (ast.If, ast.For, ast.While, ast.Try, ast.With, ast.FunctionDef)) for n in ast.walk(tree))
    # executed jump: approximated by 'log is shorter than the number of tracers or an exception/return value != end'
    jumped = o1["exc"] is not None or o1["globals"].get("r") != ("str", "'end'") or any(isinstance(n, (ast.Break, ast.Continue)) for n in ast.walk(tree))
    return comp >= 3 and jumped and len(o1["log"]) > 0


CHECK = DiffCheck(
    PROP, RULE, PREDICATES, inject=make_inject, nontrivial=is_nontrivial, compare_exc_chain=True,
    assumptions=[
        "CPython 3.12 in the same process is the reference",
        "__context__ (implicit chaining) is not compared, only __cause__ and __suppress_context__",
        "BaseException subclasses that are not Exceptions are not generated (open finding, directed reproducer only)",
    ],
)

REGRESS = [
    ("finally-return-overrides", PRELUDE + "def f():\n    try:\n        raise KeyError(1)\n    finally:\n        return T('s', 'fin')\nr = f()"),
    ("break-in-finally", PRELUDE + "def f():\n    for i in [1, 2]:\n        try:\n            raise KeyError(1)\n        finally:\n            T('f')\n            break\n    return 'ok'\nr = f()"),
    ("continue-in-finally", PRELUDE + "def f():\n    for i in [1, 2]:\n        try:\n            return T('r', 'ret')\n        finally:\n            T('f')\n            continue\n    return 'ok'\nr = f()"),
    ("nested-handler-reraise", PRELUDE + "def f():\n    try:\n        try:\n            raise KeyError(1)\n        except KeyError:\n            T('h')\n            raise\n        finally:\n            T('fin')\n    except LookupError as e:\n        return T('o', type(e).__name__)\nr = f()"),
    ("else-exception-not-caught", PRELUDE + "def f():\n    try:\n        T('b')\n    except ValueError:\n        T('h')\n    else:\n        raise ValueError('e')\n    finally:\n        T('fin')\nr = f()"),
    ("with-return", PRELUDE + "def f():\n    with CM('a'), CM('b'):\n        return T('r', 1)\nr = f()"),
    ("with-enter-raises", PRELUDE + "def f():\n    with CM('a'), CM('b', enter_raises=True), CM('c'):\n        T('no')\nr = f()"),
    ("with-exit-raises", PRELUDE + "def f():\n    try:\n        with CM('a', suppress=True), CM('b', exit_raises=True):\n            raise KeyError(1)\n    finally:\n        T('fin')\n    return 'ok'\nr = f()"),
    ("with-noexit", PRELUDE + "def f():\n    with NoExit():\n        T('no')\nr = f()"),
    ("script-cm", PRELUDE + "class M:\n    def __init__(self, s):\n        self.s = s\n    def __enter__(self):\n        T('en')\n        return self\n    def __exit__(self, t, v, tb):\n        T('ex', t.__name__ if t else None)\n        return self.s\ndef f():\n    with M(True) as m:\n        raise KeyError(1)\n    with M(False):\n        raise ValueError(2)\nr = f()"),
]


def features():
    return {}


async def shard_main(tier, shard_i, shard_n):
    res = core.ShardResult()
    async with l1.bare_hass():
        if shard_i == 0:
            for rid, src in REGRESS + CHECK.regress_from_findings():
                await CHECK.check_one(res, "regress:" + rid, src)
        depth = {"quick": 2, "thorough": 3}[tier]
        sk = skeletons(depth)
        for idx in range(shard_i, len(sk), shard_n):
            if res.counters.get("mismatch_total", 0) >= 300:
                break
            combo, leaf = sk[idx]
            await CHECK.check_one(res, f"skeleton-d{len(combo)}", render(combo, leaf))
            res.count("table_programs")
        n_random = {"quick": 6000, "thorough": 200000}[tier]
        rdepth = {"quick": 4, "thorough": 6}[tier]
        await CHECK.run_random(res, lambda R: Gen(R, rdepth, {}).program(), n_random, shard_i, shard_n)
    return res


def run_shard(tier, shard_i, shard_n):
    return asyncio.run(shard_main(tier, shard_i, shard_n))


def replay(path):
    return CHECK.replay(path)


def main(tier):
    return CHECK.main(tier, extra={"exhaustive_skeleton_depth": {"quick": 2, "thorough": 3}[tier], "exhaustive": False})
