"""C12 - a @service exists exactly while declared and calls the current definition (sequences vs model)."""

from __future__ import annotations

import asyncio
import json

from vlib import core, l3
from vlib.modelcheck import ModelCheck

PROP = "C12"
CTXS = ["file.a", "file.b", "file.c"]
FUNCS = ["fa", "fb"]
NAMES = ["vdom.s1", "vdom.s2", "vdom2.s1"]


def gen(R):
    ops = []
    nctx = R.int(1, 3)
    g = 0
    legacy = R.bool()
    multi_open = any(f["id"] == "C12-new-multi-name-service" for f in core.open_findings(PROP))
    sim = Model(legacy, variant_multi_nothing=multi_open)
    maker = {c: True for c in CTXS}  # the maker service lives until the context's file is rewritten
    for _ in range(R.int(3, 18)):
        ctx = R.choice(CTXS[:nctx])
        k = R.weighted([(6, "define"), (2, "delete"), (1, "rebind"), (7, "call"), (1, "reload_empty"), (1, "reload_race"), (2, "outgoing"), (3, "script_call"), (1, "make_inner"), (1, "drop_inner"), (2, "call_overlap")])
        if k == "define":
            g += 1
            form = R.weighted([(3, "default"), (4, "one"), (2, "multi"), (2, "two_decs")])
            if form == "default":
                decs = [[]]
            elif form == "one":
                decs = [[R.choice(NAMES)]]
            elif form == "multi":
                decs = [R.shuffle(NAMES)[:2]]
            else:
                two = R.shuffle(NAMES)[:2]
                decs = [[two[0]], [two[1]]]
            op = {"op": "define", "ctx": ctx, "fn": R.choice(FUNCS), "gen": g, "decs": decs, "sr": R.choice([None, None, "optional", "only"]), "slow": R.bool(1, 3)}
            names = [n for d in decs for n in (d if d else [f"pyscript.{op['fn']}"])]
            reg = sim.registered()
            foreign = [n for n in names if n in reg and any(x[1] != ctx for x in reg[n])]
            if foreign:
                # a conflicting declaration uses the contested name only (what happens to its other names is unspecified)
                op["decs"] = [[foreign[0]]]
                names = [foreign[0]]
            # open finding C12-shared-name-stale-handler: two different functions of one context never share a name here
            clash = [n for n in names if n in reg and any(x[1] == ctx and x[2] != op["fn"] for x in reg[n])]
            if clash:
                op["decs"] = [[]]
            sim.define(op)
            ops.append(op)
        elif k in ("delete", "rebind"):
            fn = R.choice(FUNCS)
            sim.remove(ctx, fn)
            ops.append({"op": k, "ctx": ctx, "fn": fn})
        elif k == "call":
            name = R.choice(NAMES + ["pyscript.fa", "pyscript.fb"])
            data = R.choice([{}, {"x": 1}, {"x": "s", "y": [1, 2]}, {"entity": "light.k", "z": {"q": None}}])
            ops.append({"op": "call", "name": name, "data": data, "rr": R.bool(1, 3)})
        elif k == "reload_empty":
            sim.funcs[ctx] = {}
            maker[ctx] = False
            ops.append({"op": "reload_empty", "ctx": ctx})
        elif k == "reload_race":
            # the context's file is reloaded with one function declaring two alias names; while that declaration is still
            # being started (the service-description lookup is held by the harness) the file is emptied and reloaded again
            sim.funcs[ctx] = {}
            maker[ctx] = False
            ops.append({"op": "reload_race", "ctx": ctx, "suspend": R.choice([3, 10, 40]), "sr": R.choice([None, "optional"])})
        elif k == "make_inner" and maker[ctx]:
            # a function declaring a service is created while the context's maker service runs, and kept in a dict
            g += 1
            reg = sim.registered()
            free = [n for n in NAMES if not any(x[1] == ctx for x in reg.get(n, []))]  # no second declaration inside one context (open finding)
            if free:
                name = R.choice(free)
                op = {"op": "make_inner", "ctx": ctx, "name": name, "gen": g}
                sim.define({"ctx": ctx, "fn": f"inner{g}", "gen": g, "decs": [[name]], "sr": None})
                ops.append(op)
        elif k == "drop_inner":
            for fn in [f for f in sim.funcs[ctx] if f.startswith("inner")]:
                sim.remove(ctx, fn)
            ops.append({"op": "drop_inner", "ctx": ctx})
        elif k == "call_overlap" and sim.registered():
            # two calls of one service overlap in time (the first is suspended when the second arrives)
            name = R.choice(sorted(sim.registered()))
            ops.append({"op": "call_overlap", "name": name, "data": [{"x": 1}, {"y": 2, "z": [3]}]})
        elif k == "script_call" and sim.registered():
            # script code calls a service that pyscript itself declares (service.call or DOMAIN.SERVICE(**kw)); a service
            # that only supports responses returns its result also without return_response (the call implies it)
            reg = sim.registered()
            name = R.choice(sorted(reg))
            sr = sorted(reg[name])[-1][4]
            ctl = R.choice([{}, {"blocking": True}] + ([{"return_response": True}, {"blocking": True, "return_response": True}] if sr else []))
            ops.append({"op": "script_call", "ctx": ctx, "form": R.choice(["service.call", "direct"]), "name": name,
                        "kw": R.choice([{}, {"x": 1}, {"x": "s", "y": [1, 2]}]), "ctl": ctl})
        else:
            form = R.choice(["service.call", "direct"])
            kw = R.choice([{"a": 1}, {"a": "x", "b": [1]}, {}, {"entity_id": "light.z", "n": 2.5}])
            ctl = R.choice([{}, {"blocking": True}, {"blocking": True, "return_response": True}, {"blocking": False}])
            ops.append({"op": "outgoing", "ctx": ctx, "form": form, "kw": kw, "ctl": ctl})
    return {"legacy": legacy, "nctx": nctx, "ops": ops}


def maker_src(ctx):
    """Initial file of a context: a service that, while it runs, creates a function declaring a service and keeps it."""
    c = ctx.split(".")[1]
    return (f"x = 1\nzz_keep = {{}}\n@service('pyscript.zz_make_{c}')\ndef zz_make(name=None, gen=None):\n"
            f"    @service(name)\n    def zz_inner(context=None, **kw):\n        vrec('svc', {ctx!r}, 'inner' + str(gen), gen, kw)\n"
            f"        return {{'gen': gen, 'keys': sorted(kw)}}\n    zz_keep[gen] = zz_inner\n")


def define_src(op):
    L = []
    for names in op["decs"]:
        args = [repr(n) for n in names]
        if op["sr"]:
            args.append(f"supports_response={op['sr']!r}")
        L.append(f"@service({', '.join(args)})" if args else "@service")
    L += [
        f"def {op['fn']}(context=None, **kw):",
        f"    vrec('svc', {op['ctx']!r}, {op['fn']!r}, {op['gen']}, kw)",
    ]
    if op.get("slow"):
        # the run is suspended for a while and then reports its own arguments again (overlapping calls must not mix)
        L += ["    task.sleep(0.5)", f"    vrec('svc_end', {op['ctx']!r}, {op['fn']!r}, {op['gen']}, kw)"]
    L += [f"    return {{'gen': {op['gen']}, 'keys': sorted(kw)}}"]
    return "\n".join(L)


class Model:
    def __init__(self, legacy, variant_multi_nothing=False):
        self.legacy = legacy
        self.variant = variant_multi_nothing
        self.funcs = {c: {} for c in CTXS}  # ctx -> fn -> {"gen", "names": [accepted names], "sr"}
        self.bound = {c: set() for c in CTXS}  # python names currently bound in the context
        self.order = 0

    def registered(self):
        out = {}
        for c, fs in self.funcs.items():
            for fn, f in fs.items():
                for n in f["names"]:
                    out.setdefault(n, []).append((f["order"], c, fn, f["gen"], f["sr"]))
        return out

    def owner(self, name):
        reg = self.registered().get(name)
        return reg[0][1] if reg else None

    def define(self, op):
        names = []
        for dec in op["decs"]:
            names += dec if dec else [f"pyscript.{op['fn']}"]
        if self.variant and not self.legacy and any(len(d) > 1 for d in op["decs"]):
            names = []
        accepted = []
        conflict = False
        old = self.funcs[op["ctx"]].get(op["fn"])
        for n in names:
            own = None
            for c, fs in self.funcs.items():
                for fn, f in fs.items():
                    if n in f["names"]:
                        own = c
            if own is not None and own != op["ctx"]:
                conflict = True
                break
            accepted.append(n)
        self.order += 1
        self.bound[op["ctx"]].add(op["fn"])
        self.funcs[op["ctx"]][op["fn"]] = {"gen": op["gen"], "names": accepted, "sr": op["sr"], "order": self.order, "conflict": conflict}
        return conflict

    def remove(self, ctx, fn):
        self.funcs[ctx].pop(fn, None)


async def execute(case):
    from homeassistant.core import SupportsResponse

    from custom_components.pyscript.eval import AstEval
    from custom_components.pyscript.function import Function
    from custom_components.pyscript.global_ctx import GlobalContextMgr

    files = {f"{c.split('.')[1]}.py": maker_src(c) for c in CTXS[: case["nctx"]]}
    async with l3.Integ(files, legacy=case["legacy"]) as it:
        got = []

        async def rec(call):
            got.append(dict(call.data))
            return {"ok": 1}

        it.hass.services.async_register("vtest", "rec", rec, supports_response=SupportsResponse.OPTIONAL)
        trace = []
        for i, op in enumerate(case["ops"]):
            step = {"i": i, "op": op["op"]}
            if op["op"] in ("define", "delete", "rebind", "outgoing", "script_call"):
                gctx = GlobalContextMgr.get(op["ctx"])
                ast_ctx = AstEval(op["ctx"], gctx)
                Function.install_ast_funcs(ast_ctx)
                if op["op"] == "define":
                    src = define_src(op)
                elif op["op"] == "delete":
                    src = f"del {op['fn']}"
                elif op["op"] == "rebind":
                    src = f"{op['fn']} = 5"
                elif op["op"] == "script_call":
                    kw = dict(op["kw"])
                    kw.update(op["ctl"])
                    args = ", ".join(f"{k}={v!r}" for k, v in kw.items())
                    dom, name = op["name"].split(".")
                    if op["form"] == "service.call":
                        src = f"_out = service.call({dom!r}, {name!r}{', ' if args else ''}{args})"
                    else:
                        src = f"_out = {dom}.{name}({args})"
                    gctx.global_sym_table.pop("_out", None)
                else:
                    kw = dict(op["kw"])
                    kw.update(op["ctl"])
                    args = ", ".join(f"{k}={v!r}" for k, v in kw.items())
                    if op["form"] == "service.call":
                        src = f"_out = service.call('vtest', 'rec'{', ' if args else ''}{args})"
                    else:
                        src = f"_out = vtest.rec({args})"
                before = len(got)
                n0 = len(it.records)
                try:
                    ast_ctx.parse(src)
                    await ast_ctx.eval()
                    step["exc"] = None
                except Exception as exc:  # noqa: BLE001
                    step["exc"] = type(exc).__name__
                await it.settle(1)
                if op["op"] == "script_call":
                    step["runs"] = [list(a[1:4]) + [{k: v for k, v in a[4].items()}] for vt, a, kw in it.records[n0:] if a[0] == "svc"]
                    step["result"] = gctx.global_sym_table.get("_out")
                if op["op"] == "outgoing":
                    step["delivered"] = got[before:]
                    step["result"] = gctx.global_sym_table.get("_out") if op["ctl"].get("return_response") else None
            elif op["op"] == "make_inner":
                c = op["ctx"].split(".")[1]
                step["made"] = it.hass.services.has_service("pyscript", f"zz_make_{c}")
                if step["made"]:
                    await it.hass.services.async_call("pyscript", f"zz_make_{c}", {"name": op["name"], "gen": op["gen"]}, blocking=True)
                await it.settle(1)
            elif op["op"] == "drop_inner":
                gctx = GlobalContextMgr.get(op["ctx"])
                keep = gctx.global_sym_table.get("zz_keep") if gctx else None
                if isinstance(keep, dict):
                    keep.clear()
                import gc as _gc

                _gc.collect()
                await it.settle(2)
            elif op["op"] == "call_overlap":
                dom, name = op["name"].split(".")
                n0 = len(it.records)
                step["had"] = it.hass.services.has_service(dom, name)
                if step["had"]:
                    from homeassistant.core import SupportsResponse as SR

                    rr = it.hass.services.supports_response(dom, name) != SR.NONE
                    t1 = asyncio.ensure_future(it.hass.services.async_call(dom, name, dict(op["data"][0]), blocking=True, return_response=rr))
                    await asyncio.sleep(0.2)
                    t2 = asyncio.ensure_future(it.hass.services.async_call(dom, name, dict(op["data"][1]), blocking=True, return_response=rr))
                    res = await asyncio.gather(t1, t2, return_exceptions=True)
                    step["resps"] = [r if not isinstance(r, BaseException) else type(r).__name__ for r in res]
                    step["rr"] = rr
                await it.settle(1)
                step["runs"] = [list(a[1:4]) + [dict(a[4])] for vt, a, kw in it.records[n0:] if a[0] == "svc"]
                step["ends"] = [list(a[1:4]) + [dict(a[4])] for vt, a, kw in it.records[n0:] if a[0] == "svc_end"]
            elif op["op"] == "reload_empty":
                await it.reload(op["ctx"])
            elif op["op"] == "reload_race":
                import os
                import sys as _sys

                from custom_components.pyscript.state import State

                path = os.path.join(it.dir, "pyscript", f"{op['ctx'].split('.')[1]}.py")
                orig_gsp = State.get_service_params.__func__
                hold = {"n": op["suspend"]}

                async def slow_gsp(cls):
                    fr, from_service = _sys._getframe(1), False
                    while fr is not None and not from_service:
                        from_service = fr.f_code.co_filename.endswith("decorators/service.py")
                        fr = fr.f_back
                    for _ in range(hold["n"] if from_service else 0):
                        await asyncio.sleep(0)
                    return await orig_gsp(cls)

                State.get_service_params = classmethod(slow_gsp)
                try:
                    args = "'vdom.race1', 'vdom.race2'" + (f", supports_response={op['sr']!r}" if op["sr"] else "")
                    with open(path, "w") as fh:
                        fh.write(f"@service({args})\ndef racer(**kw):\n    return {{'r': 1}}\n")
                    os.utime(path, (1_700_000_000 + 10 * i, 1_700_000_000 + 10 * i))
                    await it.hass.services.async_call("pyscript", "reload", {"global_ctx": op["ctx"]}, blocking=True)
                    with open(path, "w") as fh:
                        fh.write("x = 1\n")
                    os.utime(path, (1_700_000_005 + 10 * i, 1_700_000_005 + 10 * i))
                    await it.hass.services.async_call("pyscript", "reload", {"global_ctx": op["ctx"]}, blocking=True)
                    for _ in range(op["suspend"] + 5):
                        await asyncio.sleep(0)
                finally:
                    State.get_service_params = classmethod(orig_gsp)
                await it.settle(1)
            else:
                dom, name = op["name"].split(".")
                n0 = len(it.records)
                step["had"] = it.hass.services.has_service(dom, name)
                resp = None
                exc = None
                if step["had"]:
                    from homeassistant.core import SupportsResponse as SR

                    sup = it.hass.services.supports_response(dom, name)
                    want_rr = (op["rr"] and sup != SR.NONE) or sup == SR.ONLY
                    try:
                        resp = await it.hass.services.async_call(dom, name, dict(op["data"]), blocking=True, return_response=want_rr)
                    except Exception as e:  # noqa: BLE001
                        exc = type(e).__name__
                    step["sup"] = str(sup.value if hasattr(sup, "value") else sup)
                    step["want_rr"] = want_rr
                await it.settle(1)
                step["runs"] = [list(a[1:4]) + [{k: v for k, v in a[4].items()}] for vt, a, kw in it.records[n0:] if a[0] == "svc"]
                step["resp"] = resp
                step["exc"] = exc
            step["services"] = sorted(f"{d}.{s}" for d, ss in it.hass.services.async_services().items() for s in ss if d in ("vdom", "vdom2") or (d == "pyscript" and s in ("fa", "fb")))
            trace.append(step)
        await it.unload()
        import gc

        gc.collect()
        await it.settle(2)
        left = sorted(f"{d}.{s}" for d, ss in it.hass.services.async_services().items() for s in ss if d in ("vdom", "vdom2") or (d == "pyscript" and s in ("fa", "fb")))
        from custom_components.pyscript.function import Function as F2

        leak = {"services": left, "service_cnt": {k: v for k, v in F2.service_cnt.items() if v}, "owners": dict(F2.service2global_ctx)}
        errs = [e[2][-160:] for e in it.errors()]
    return trace, leak, errs


def judge(case, trace, leak, variant=False):
    """Replays the model along the trace; returns the first problem or None."""
    m = Model(case["legacy"], variant_multi_nothing=variant)
    for step, op in zip(trace, case["ops"]):
        if op["op"] == "define":
            m.define(op)
        elif op["op"] in ("delete", "rebind"):
            if op["op"] == "delete":
                exp_exc = None if op["fn"] in m.bound[op["ctx"]] else "NameError"
                if step["exc"] != exp_exc:
                    return {"i": step["i"], "what": "delete-missing", "exp": exp_exc, "obs": step["exc"]}
                m.bound[op["ctx"]].discard(op["fn"])
            else:
                m.bound[op["ctx"]].add(op["fn"])
            m.remove(op["ctx"], op["fn"])
        elif op["op"] in ("reload_empty", "reload_race"):
            m.funcs[op["ctx"]] = {}
            m.bound[op["ctx"]] = set()
        elif op["op"] == "make_inner":
            if step.get("made"):
                m.define({"ctx": op["ctx"], "fn": f"inner{op['gen']}", "gen": op["gen"], "decs": [[op["name"]]], "sr": None})
        elif op["op"] == "drop_inner":
            for fn in [f for f in m.funcs[op["ctx"]] if f.startswith("inner")]:
                m.remove(op["ctx"], fn)
        elif op["op"] == "call_overlap":
            reg = m.registered().get(op["name"])
            if bool(reg) != step["had"]:
                return {"i": step["i"], "what": "has_service", "exp": bool(reg), "obs": step["had"]}
            if reg:
                _, c, fn, g, sr = sorted(reg)[-1]
                datas = [dict(d, trigger_type="service") for d in op["data"]]
                exp_runs = [[c, fn, g, d] for d in datas]
                if step["runs"] != exp_runs:
                    return {"i": step["i"], "what": "overlap-run", "exp": exp_runs, "obs": step["runs"]}
                if step["ends"] and sorted(step["ends"], key=str) != sorted(exp_runs, key=str):
                    return {"i": step["i"], "what": "overlap-run-state-mixed-up", "exp": exp_runs, "obs": step["ends"]}
                if step.get("rr"):
                    exp_resps = [{"gen": g, "keys": sorted(d)} for d in datas]
                    if step["resps"] != exp_resps:
                        return {"i": step["i"], "what": "overlap-response", "exp": exp_resps, "obs": step["resps"]}
        elif op["op"] == "script_call":
            reg = m.registered().get(op["name"])
            if reg:
                _, c, fn, g, sr = sorted(reg)[-1]
                data = dict(op["kw"])
                data["trigger_type"] = "service"
                if not (op["ctl"].get("return_response") and not sr):  # asking a service without responses for one is an error
                    if step["exc"] is not None or step["runs"] != [[c, fn, g, data]]:
                        return {"i": step["i"], "what": "script-call-run", "exp": [[c, fn, g, data]], "obs": [step["exc"], step["runs"]]}
                    exp_res = {"gen": g, "keys": sorted(data)} if (op["ctl"].get("return_response") or sr == "only") else None
                    if step["result"] != exp_res:
                        return {"i": step["i"], "what": "script-call-response", "exp": exp_res, "obs": step["result"]}
            elif step.get("runs"):
                return {"i": step["i"], "what": "script-call-run", "exp": [], "obs": step["runs"]}
        elif op["op"] == "outgoing":
            if step["exc"] is not None or step["delivered"] != [op["kw"]]:
                return {"i": step["i"], "what": "outgoing", "exp": [op["kw"]], "obs": [step["exc"], step["delivered"]]}
            if op["ctl"].get("return_response") and step["result"] != {"ok": 1}:
                return {"i": step["i"], "what": "outgoing-response", "exp": {"ok": 1}, "obs": step["result"]}
        else:
            reg = m.registered().get(op["name"])
            if bool(reg) != step["had"]:
                return {"i": step["i"], "what": "has_service", "exp": bool(reg), "obs": step["had"]}
            if reg:
                latest = sorted(reg)[-1]
                _, c, fn, g, sr = latest
                data = dict(op["data"])
                data["trigger_type"] = "service"
                exp_runs = [[c, fn, g, data]]
                if step["runs"] != exp_runs:
                    return {"i": step["i"], "what": "run", "exp": exp_runs, "obs": step["runs"]}
                if step.get("want_rr"):
                    exp_resp = {"gen": g, "keys": sorted(data)}
                    if step["resp"] != exp_resp:
                        return {"i": step["i"], "what": "response", "exp": exp_resp, "obs": step["resp"]}
        exp_services = sorted(m.registered())
        if step["services"] != exp_services:
            return {"i": step["i"], "what": "registered-set", "exp": exp_services, "obs": step["services"]}
    if leak["services"] or leak["service_cnt"] or leak["owners"]:
        return {"i": len(trace), "what": "leak-after-unload", "exp": {}, "obs": leak}
    return None


class C12(ModelCheck):
    prop = PROP
    rule = (
        "sequences of 3-18 operations over 1-3 contexts: define / redefine a function with @service (default name, one "
        "explicit name, several names in one decorator, two decorators; supports_response none/optional/only) by "
        "evaluating code in the context the way a Jupyter cell does, delete it, rebind it to a constant, reload the file with a two-alias service and empty it again while that declaration is still being started (constructed race), reload the "
        "context's (empty) file, call a service with generated data (with return_response where supported), and "
        "outgoing calls from script code to a recording service through service.call and DOMAIN.SERVICE(**kw) with "
        "blocking / return_response controls, and calls from script code to the services pyscript itself declares (a "
        "response-only service returns its result also without return_response), functions declaring a service that are created while a maker service of the context runs (kept in a dict, dropped again), and two calls of one service that overlap in time (a third of the functions sleep and report their arguments again afterwards); finally unload. Oracle: a model of declarations and owners - after every "
        "step the registered names equal the declared (non-rejected) ones, a call runs the latest live definition with "
        "data + trigger_type='service' and returns its result, a name owned by another context is not taken over, the "
        "recording service receives exactly the given parameters, nothing is left after unload. Non-trivial = a "
        "redefinition or deletion of a declared name followed by a call; distinct by sequence."
    )
    assumptions = ["what happens to the other names of a function whose declaration conflicts with another context is not specified and not generated (conflicts use the rejected name only)"]

    def n_random(self, tier):
        return {"quick": 960, "thorough": 16000}[tier]

    def gen(self, R):
        return gen(R)

    def regress_cases(self):
        return self.fixed_regress()

    def valid(self, case):
        multi_open = any(f["id"] == "C12-new-multi-name-service" for f in core.open_findings(PROP))
        sim = Model(case["legacy"], variant_multi_nothing=multi_open)
        for op in case["ops"]:
            if op["op"] == "define":
                names = [n for d in op["decs"] for n in (d if d else [f"pyscript.{op['fn']}"])]
                reg = sim.registered()
                foreign = [n for n in names if n in reg and any(x[1] != op["ctx"] for x in reg[n])]
                if foreign and len(names) > 1:
                    return False
                if any(n in reg and any(x[1] == op["ctx"] and x[2] != op["fn"] for x in reg[n]) for n in names):
                    return False
                sim.define(op)
            elif op["op"] in ("delete", "rebind"):
                sim.remove(op["ctx"], op["fn"])
            elif op["op"] in ("reload_empty", "reload_race"):
                sim.funcs[op["ctx"]] = {}
        return True

    def run(self, case):
        case = json.loads(json.dumps(case))
        trace, leak, errs = l3.run_case(execute, case)
        prob = judge(case, trace, leak)
        vprob = judge(case, trace, leak, variant=True) if prob else None
        kinds = [o["op"] for o in case["ops"]]
        nt = False
        seen_change = False
        for o in case["ops"]:
            if o["op"] in ("define", "delete", "rebind", "reload_empty", "reload_race"):
                seen_change = True
            elif o["op"] == "call" and seen_change:
                nt = True
        return {"expected": None, "observed": prob, "nontrivial": nt, "variant_ok": prob is not None and vprob is None,
                "classes": ["legacy" if case["legacy"] else "new"] + (["multi-name"] if any(o["op"] == "define" and any(len(d) > 1 for d in o["decs"]) for o in case["ops"]) else []),
                "detail": {"errors": errs[:2]}}

    def bucket(self, case, r):
        return ("legacy" if case["legacy"] else "new") + "|" + r["observed"]["what"]

    def attribute(self, case, r):
        ids = {f["id"] for f in core.open_findings(PROP)}
        if "C12-new-multi-name-service" in ids and not case["legacy"] and r.get("variant_ok"):
            if any(o["op"] == "define" and any(len(d) > 1 for d in o["decs"]) for o in case["ops"]):
                return "C12-new-multi-name-service"
        return None


CHECK = C12()


def run_shard(tier, i, n):
    return CHECK.run_shard(tier, i, n)


def replay(path):
    return CHECK.replay(path)


def main(tier):
    return CHECK.main(tier)
