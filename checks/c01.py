"""C01 - expressions and assignments: pyscript vs CPython on generated straight-line programs."""

from __future__ import annotations

import ast
import asyncio
import itertools
import json

from vlib import core, l1
from vlib.diffcheck import DiffCheck, node_types

PROP = "C01"
RULE = (
    "straight-line programs: (a) exhaustive operator x operand tables (BinOp/Compare/UnaryOp/AugAssign over 31 "
    "representative values of 10 kinds) and evaluation-order tables (tracer T at every child position of every "
    "multi-child node type, plus a raising TX at each position in turn); (b) Hypothesis-generated nested programs "
    "of 1-8 statements. Compared with CPython on the same text: final globals (type-sensitive structural form), "
    "aliasing partition of mutable values, ordered tracer log, exception type. Non-trivial = compiles, has >= 2 "
    "node types beyond Constant/Name, and under CPython executes a tracer call or binds a name; distinct by source."
)

# --------------------------------------------------------------------------------------
# known-finding switches: generator features that are excluded while a finding is open.
# A fixed finding has its feature enabled (its reproducer is in the regress tier).
# --------------------------------------------------------------------------------------


def features():
    open_ids = {f["id"] for f in core.open_findings(PROP)}
    return {
        "dict_display_order": "C01-dict-display-order" not in open_ids,
        "call_kw_order": "C01-call-kw-before-pos" not in open_ids,
        "compare_chain": "C01-compare-chain-double-eval" not in open_ids,
        "aug_subscript": "C01-augassign" not in open_ids,
        "aug_inplace": "C01-augassign" not in open_ids,
        "fstring_conv": "C01-fstring-conversion" not in open_ids,
        "uadd": "C01-unary-plus" not in open_ids,
        "dup_kwarg": "C01-duplicate-kwarg" not in open_ids,
        "dict_unpack_nonmapping": "C01-dict-unpack-nonmapping" not in open_ids,
        "list_target": "C01-list-target" not in open_ids,
        "star_target_nonname": "C01-star-target-nonname" not in open_ids,
        "matmul": "C01-matmul" not in open_ids,
    }


# --------------------------------------------------------------------------------------
# known finding recognisers: predicates on the *minimised* mismatching program
# --------------------------------------------------------------------------------------


def _has_call(node):
    return any(isinstance(n, ast.Call) for n in ast.walk(node))


def pred_dict_display_order(tree, kinds):
    return any(isinstance(n, ast.Dict) and any(k is not None for k in n.keys) for n in ast.walk(tree)) and (
        set(kinds) <= {"trace-order", "trace-count", "trace-value"}
    )


def pred_call_kw_order(tree, kinds):
    return any(isinstance(n, ast.Call) and n.keywords and n.args for n in ast.walk(tree)) and (
        set(kinds) <= {"trace-order", "trace-count", "trace-value"}
    )


def pred_compare_chain(tree, kinds):
    return any(isinstance(n, ast.Compare) and len(n.ops) >= 2 for n in ast.walk(tree)) and (
        set(kinds) <= {"trace-order", "trace-count", "trace-value"}
    )


def pred_aug_subscript(tree, kinds):
    return any(
        isinstance(n, ast.AugAssign) and isinstance(n.target, ast.Subscript) and _has_call(n.target)
        for n in ast.walk(tree)
    ) and set(kinds) <= {"trace-order", "trace-count", "trace-value"}


def pred_aug_inplace(tree, kinds):
    return any(isinstance(n, ast.AugAssign) for n in ast.walk(tree)) and set(kinds) <= {"value", "alias"}


def pred_fstring_conv(tree, kinds):
    return any(isinstance(n, ast.FormattedValue) and n.conversion != -1 for n in ast.walk(tree)) and set(kinds) <= {
        "value",
        "trace-value",
    }


def pred_uadd(tree, kinds):
    return any(isinstance(n, ast.UnaryOp) and isinstance(n.op, ast.UAdd) for n in ast.walk(tree))


def pred_dup_kwarg(tree, kinds):
    return any(
        isinstance(n, ast.Call) and any(k.arg is None for k in n.keywords) and len(n.keywords) >= 2
        for n in ast.walk(tree)
    ) and any(k.startswith("exc:TypeError->") for k in kinds)


def pred_dict_unpack_nonmapping(tree, kinds):
    return any(isinstance(n, ast.Dict) and any(k is None for k in n.keys) for n in ast.walk(tree)) and any(
        k.startswith("exc:TypeError->") for k in kinds
    )


def pred_call_unpack_nonmapping(tree, kinds):
    return any(isinstance(n, ast.Call) and any(k.arg is None for k in n.keywords) for n in ast.walk(tree)) and any(
        k.startswith("exc:TypeError->") for k in kinds
    )


def pred_list_target(tree, kinds):
    def lt(n):
        if isinstance(n, ast.Assign):
            return any(isinstance(t, ast.List) or any(isinstance(x, ast.List) for x in ast.walk(t)) for t in n.targets)
        return False

    return any(lt(n) for n in ast.walk(tree))


def pred_star_target_nonname(tree, kinds):
    return any(
        isinstance(n, ast.Starred) and isinstance(n.ctx, ast.Store) and not isinstance(n.value, ast.Name)
        for n in ast.walk(tree)
    )


def pred_matmul(tree, kinds):
    return any(isinstance(n, (ast.BinOp, ast.AugAssign)) and isinstance(n.op, ast.MatMult) for n in ast.walk(tree))


def pred_module_global(tree, kinds):
    return any(isinstance(n, ast.Global) for n in tree.body)


def pred_comp_shadow(tree, kinds):
    if not any(k.startswith("exc:NameError*->") for k in kinds):
        return False
    for n in ast.walk(tree):
        if isinstance(n, (ast.ListComp, ast.SetComp, ast.DictComp)):
            targets = {x.id for g in n.generators for x in ast.walk(g.target) if isinstance(x, ast.Name)}
            loads = {x.id for g in n.generators[1:] for x in ast.walk(g.iter) if isinstance(x, ast.Name)}
            for g in n.generators:
                for c in g.ifs:
                    loads |= {x.id for x in ast.walk(c) if isinstance(x, ast.Name)}
            if targets & loads:
                return True
    return False


PREDICATES = {
    "C01-comprehension-shadow-unbound": pred_comp_shadow,
    "C01-dict-display-order": pred_dict_display_order,
    "C01-call-kw-before-pos": pred_call_kw_order,
    "C01-compare-chain-double-eval": pred_compare_chain,
    "C01-augassign": lambda t, k: pred_aug_subscript(t, k) or pred_aug_inplace(t, k),
    "C01-fstring-conversion": pred_fstring_conv,
    "C01-unary-plus": pred_uadd,
    "C01-duplicate-kwarg": pred_dup_kwarg,
    "C01-dict-unpack-nonmapping": pred_dict_unpack_nonmapping,
    "C01-call-unpack-nonmapping": pred_call_unpack_nonmapping,
    "C01-list-target": pred_list_target,
    "C01-star-target-nonname": pred_star_target_nonname,
    "C01-matmul": pred_matmul,
    "C01-module-level-global": pred_module_global,
}


# --------------------------------------------------------------------------------------
# (a) tables
# --------------------------------------------------------------------------------------

VALUES = {
    "int": ["0", "-1", "7", "2**70"],
    "float": ["0.0", "-0.0", "2.5", "float('inf')", "float('nan')"],
    "bool": ["True", "False"],
    "none": ["None"],
    "str": ["''", "'ab'", "'\\u00e9x'"],
    "bytes": ["b''", "b'ab'"],
    "list": ["[]", "[1, 2]", "['a', [0]]"],
    "tuple": ["()", "(1, 2)", "('a', 2.0)"],
    "dict": ["{}", "{'a': 1}", "{1: 'x', 2: 'y'}"],
    "set": ["set()", "{1, 2}", "{'a', 2}"],
}
ALLVALS = [(k, v) for k, vs in VALUES.items() for v in vs]
IMMUTABLE = {"int", "float", "bool", "none", "str", "bytes", "tuple"}
BINOPS = ["+", "-", "*", "/", "//", "%", "**", "<<", ">>", "|", "^", "&", "@"]
CMPOPS = ["==", "!=", "<", "<=", ">", ">=", "is", "is not", "in", "not in"]
UNOPS = ["not ", "~", "+", "-"]


def _blowup(op, lk, lv, rk, rv):
    big = "2**70"
    if op in ("**", "<<") and (rv == big or rv == "float('inf')" and False):
        return True
    if op == "**" and lv == big and rv not in ("0", "-1", "True", "False", "0.0", "-0.0", "2.5", "7"):
        return rk in ("int",) and rv == big
    if op == "*" and ((lv == big and rk in ("str", "bytes", "list", "tuple")) or (rv == big and lk in ("str", "bytes", "list", "tuple"))):
        return True
    return False


def table_programs(feat):
    """Deterministic list of (class, source)."""
    out = []
    for op in BINOPS:
        if op == "@" and not feat["matmul"]:
            continue
        for (lk, lv), (rk, rv) in itertools.product(ALLVALS, ALLVALS):
            if _blowup(op, lk, lv, rk, rv):
                continue
            out.append(("binop", f"a = {lv}\nb = {rv}\nx = a {op} b"))
    for op in CMPOPS:
        for (lk, lv), (rk, rv) in itertools.product(ALLVALS, ALLVALS):
            if op in ("is", "is not") and lk == rk and lk in IMMUTABLE - {"none", "bool"}:
                # identity of equal immutable literals is an implementation detail (constant interning)
                continue
            out.append(("compare", f"a = {lv}\nb = {rv}\nx = a {op} b\ny = (a {op} b) if True else None"))
    for op in UNOPS:
        if op == "+" and not feat["uadd"]:
            continue
        for k, v in ALLVALS:
            out.append(("unaryop", f"a = {v}\nx = {op}a"))
    for op in BINOPS:
        if op == "@" and not feat["matmul"]:
            continue
        for (lk, lv), (rk, rv) in itertools.product(ALLVALS, ALLVALS):
            if _blowup(op, lk, lv, rk, rv):
                continue
            if lk not in IMMUTABLE and not feat["aug_inplace"]:
                continue
            out.append(("augassign", f"a = {lv}\nc = a\nb = {rv}\na {op}= b"))
            out.append(("augassign-sub", f"l = [{lv}]\nc = l[0]\nb = {rv}\nl[0] {op}= b"))
    # boolean operators / ifexp over all value pairs
    for (lk, lv), (rk, rv) in itertools.product(ALLVALS, ALLVALS):
        out.append(("boolop", f"a = {lv}\nb = {rv}\nx = a and b\ny = a or b\nz = b if a else a\nw = not a or b and a"))
    out.extend(order_table(feat))
    out.extend(slice_table())
    out.extend(unpack_table(feat))
    return out


def slice_table():
    out = []
    seqs = ["[0, 1, 2, 3, 4]", "'abcde'", "(0, 1, 2)", "b'abcd'"]
    idx = ["", "0", "1", "-1", "-9", "9", "None"]
    steps = ["", "1", "2", "-1", "-2", "0"]
    for s in seqs:
        for lo, hi, st in itertools.product(idx, idx, steps):
            sl = f"{lo}:{hi}" + (f":{st}" if st != "" else "")
            out.append(("slice", f"s = {s}\nx = s[{sl}]"))
        for i in ["0", "-1", "5", "-6", "True", "'a'", "None", "1.0"]:
            out.append(("index", f"s = {s}\nx = s[{i}]"))
    for lo, hi, st in itertools.product(["", "1", "-2"], ["", "3", "-1"], ["", "2", "-1"]):
        sl = f"{lo}:{hi}" + (f":{st}" if st != "" else "")
        out.append(("slice-assign", f"l = [0, 1, 2, 3, 4]\nm = l\nl[{sl}] = ['p', 'q']"))
        out.append(("slice-del", f"l = [0, 1, 2, 3, 4]\nm = l\ndel l[{sl}]"))
    out.append(("index", "d = {(1, 2): 'a', 'k': {'n': [5]}}\nx = d[1, 2]\ny = d['k']['n'][0]\nd['k']['n'][0] = 6\nz = d"))
    return out


def unpack_table(feat):
    out = []
    rhs = ["(1, 2, 3)", "[1, 2, 3]", "'abc'", "(1, 2)", "[1]", "()", "5", "{'a': 1, 'b': 2, 'c': 3}", "range(3)", "((1, 2), 3)", "iter([1, 2, 3])", "None"]
    lhs = ["a, b, c", "a, b", "a, *b", "*a, b", "a, *b, c", "a, *b, c, d", "(a, b), c", "a,", "*a,", "a, (b, *c)", "a, b, *c"]
    if feat["list_target"]:
        lhs += ["[a, b, c]", "[a, *b]", "[a, [b, c]]"]
    for l_, r_ in itertools.product(lhs, rhs):
        out.append(("unpack", f"{l_} = {r_}"))
        out.append(("unpack-for", f"r = []\nfor {l_} in [{r_}, {r_}]:\n    r.append(1)"))
    out.append(("multi-target", "a = b = c = [1]\nb.append(2)"))
    out.append(("multi-target", "l = [0, 0]\na = l[0] = l[1] = 5"))
    out.append(("multi-target", "d = {}\nx = d['k'] = y = [1]\ny.append(2)"))
    out.append(("del", "a = 1\nb = 2\ndel a, b\nc = 3"))
    out.append(("del", "a = 1\ndel a\ndel a"))
    out.append(("del", "l = [1, 2, 3]\nd = {'a': 1}\ndel l[0], d['a']\ndel l[5]"))
    out.append(("annassign", "x: int = 5\ny: str\nz: 'list[int]' = [1]\nl = [0]\nl[0]: int = 3"))
    if feat["star_target_nonname"]:
        out.append(("unpack", "l = [0]\na, *l[0] = 1, 2, 3"))
    return out


def order_table(feat):
    """Evaluation-order table: templates with {i} placeholders; placeholder i -> T('p<i>', value)."""
    tpls = [
        ("BinOp", "x = {0} + {1} * {2}", ["1", "2", "3"]),
        ("BinOp2", "x = ({0} - {1}) // {2}", ["9", "2", "3"]),
        ("Compare", "x = {0} < {1}", ["1", "2"]),
        ("CompareIn", "x = {0} in {1}", ["1", "[1]"]),
        ("BoolAndT", "x = {0} and {1} and {2}", ["1", "2", "3"]),
        ("BoolAndF", "x = {0} and {1} and {2}", ["1", "0", "3"]),
        ("BoolOrT", "x = {0} or {1} or {2}", ["0", "2", "3"]),
        ("BoolOrF", "x = {0} or {1} or {2}", ["0", "''", "None"]),
        ("BoolMix", "x = {0} or {1} and {2}", ["0", "2", "3"]),
        ("IfExpT", "x = {1} if {0} else {2}", ["1", "2", "3"]),
        ("IfExpF", "x = {1} if {0} else {2}", ["0", "2", "3"]),
        ("Subscript", "x = {0}[{1}]", ["[5, 6]", "1"]),
        ("Slice", "x = {0}[{1}:{2}:{3}]", ["[5, 6, 7, 8]", "0", "3", "2"]),
        ("TupleIndex", "x = {0}[{1}, {2}]", ["{(1, 2): 3}", "1", "2"]),
        ("List", "x = [{0}, {1}, *{2}, {3}]", ["1", "2", "[3]", "4"]),
        ("Tuple", "x = ({0}, *{1}, {2})", ["1", "(2,)", "3"]),
        ("Set", "x = {{{0}, {1}, *{2}}}", ["1", "2", "[3]"]),
        ("CallPos", "f = lambda *a, **k: (a, k)\nx = f({0}, {1}, *{2})", ["1", "2", "[3]"]),
        ("CallKw", "f = lambda *a, **k: (a, k)\nx = f(p={0}, q={1}, **{2})", ["1", "2", "{'r': 3}"]),
        ("CallFunc", "fs = [lambda a: a]\nx = {0}[{1}]({2})", ["fs", "0", "7"]),
        ("Method", "x = {0}.join([{1}, {2}])", ["'-'", "'a'", "'b'"]),
        ("MethodChain", "x = {0}.replace({1}, {2}).upper()", ["'abc'", "'a'", "'z'"]),
        ("ListComp", "x = [{1} for v in {0} if {2}]", ["[1, 2]", "v", "v"]),
        ("ListComp2", "x = [{2} for v in {0} for w in {1}]", ["[1, 2]", "'ab'", "(v, w)"]),
        ("SetComp", "x = {{{1} for v in {0} if {2}}}", ["[1, 2, 1]", "v", "1"]),
        ("DictComp", "x = {{{1}: {2} for v in {0}}}", ["[1, 2]", "v", "v * 2"]),
        ("FString", "x = f'a{{{0}}}b{{{1}:>{{{2}}}}}c'", ["1", "'s'", "4"]),
        ("NamedExpr", "x = (n := {0}) + {1} + n", ["1", "2"]),
        ("AssignSub", "l = [0, 0]\n{1}[{2}] = {0}", ["5", "l", "1"]),
        ("AssignMulti", "l = [0, 0]\nd = {{}}\na = {1}[{2}] = {3}[{4}] = {0}", ["5", "l", "0", "d", "'k'"]),
        ("AssignSlice", "l = [0, 1, 2, 3]\n{1}[{2}:{3}] = {0}", ["[9]", "l", "1", "3"]),
        ("Delete", "l = [0, 1, 2]\nd = {{'a': 1}}\ndel {0}[{1}], {2}[{3}]", ["l", "0", "d", "'a'"]),
        ("AugName", "a = 1\na += {0}", ["2"]),
        ("AugSubPlain", "l = [1, 2]\nl[0] += {0}", ["2"]),
        ("UnpackRHS", "a, b = {0}, {1}", ["1", "2"]),
        ("Nested", "x = [{0}, ({1}, {{'k': {2}}}), {3} if {4} else {5}]", ["1", "2", "3", "4", "0", "6"]),
        ("UnaryOps", "x = -{0} + ~{1} + (not {2})", ["1", "2", "3"]),
    ]
    if feat["compare_chain"]:
        tpls += [
            ("CompareChainT", "x = {0} < {1} < {2} < {3}", ["1", "2", "3", "4"]),
            ("CompareChainF", "x = {0} < {1} < {2} < {3}", ["1", "5", "3", "4"]),
            ("CompareChainMix", "x = {0} in {1} == {2}", ["1", "[1]", "[1]"]),
        ]
    if feat["dict_display_order"]:
        tpls += [("Dict", "x = {{{0}: {1}, {2}: {3}, **{4}, {5}: {6}}}", ["'a'", "1", "'b'", "2", "{'c': 3}", "'d'", "4"])]
    if feat["call_kw_order"]:
        tpls += [
            ("CallMixed", "f = lambda *a, **k: (a, k)\nx = f({0}, *{1}, p={2}, **{3})", ["1", "[2]", "3", "{'q': 4}"]),
            ("CallMixed2", "f = lambda *a, **k: (a, k)\nx = f({0}, p={1}, *{2})", ["1", "2", "[3]"]),
            ("MethodKw", "x = {0}.format({1}, k={2})", ["'{}-{k}'", "1", "2"]),
            ("BuiltinKw", "x = sorted({0}, key={1}, reverse={2})", ["[2, 1, 3]", "None", "True"]),
        ]
    if feat["aug_subscript"]:
        tpls += [
            ("AugSub", "l = [1, 2]\n{0}[{1}] += {2}", ["l", "0", "5"]),
            ("AugSubSlice", "l = [1, 2, 3]\n{0}[{1}:{2}] += {3}", ["l", "0", "1", "[9]"]),
            # the old element is loaded before the right-hand side runs: a missing key / index raises first, and a
            # right-hand side that changes the element does not change the value that is updated
            ("AugSubMissingKey", "d = {{}}\n{0}[{1}] += {2}", ["d", "'k'", "1"]),
            ("AugSubMissingIdx", "l = [1]\n{0}[{1}] *= {2}", ["l", "5", "2"]),
            ("AugSubNoSubscript", "n = 5\n{0}[{1}] += {2}", ["n", "0", "1"]),
            ("AugSubRhsPops", "a = [1, 2]\n{0}[{1}] += a.pop({2})", ["a", "0", "0"]),
            ("AugSubRhsUpdates", "d = {{'k': 1}}\n{0}[{1}] += d.update(k={2}) or {3}", ["d", "'k'", "100", "1"]),
            ("AugAttrRhs", "class K:\n    v = 1\no = K()\no.v += {0}", ["2"]),
        ]
    if feat["fstring_conv"]:
        tpls += [("FStringConv", "x = f'{{{0}!r}}{{{1}!s:>5}}{{{2}!a}}'", ["'a'", "'b'", "'\\u00e9'"])]
    out = []
    for name, tpl, vals in tpls:
        n = len(vals)
        wrapped = [f"T('p{i}', {v})" for i, v in enumerate(vals)]
        out.append(("order:" + name, tpl.format(*wrapped)))
        for j in range(n):
            w = list(wrapped)
            w[j] = f"TX('p{j}')"
            out.append(("order-raise:" + name, tpl.format(*w)))
        # a plain variant with no tracer (value check)
        out.append(("order-plain:" + name, tpl.format(*vals)))
    return out


# --------------------------------------------------------------------------------------
# (b) random nested programs
# --------------------------------------------------------------------------------------

KINDS = ["int", "float", "bool", "none", "str", "bytes", "list", "tuple", "dict", "set"]


class Gen:
    def __init__(self, R, feat, max_depth):
        self.R = R
        self.feat = feat
        self.max_depth = max_depth
        self.vars = {}  # name -> kind (None = unknown)
        self.lambdas = {}  # name -> (npos, has_default, has_var, has_kw)
        self.tag = 0
        self.pow_budget = 2
        self.lines = []
        self.ill_budget = 0

    # ----- helpers
    def newtag(self):
        self.tag += 1
        return f"t{self.tag}"

    def wrapT(self, s):
        if self.R.bool(1, 6):
            return f"T('{self.newtag()}', {s})"
        return s

    def vars_of(self, kind):
        return [n for n, k in self.vars.items() if k == kind]

    def lit(self, kind):
        R = self.R
        if kind == "int":
            return R.choice(["0", "1", "2", "3", "-1", "7", "10", "255", "2**70", "-(2**65)"])
        if kind == "float":
            return R.choice(["0.5", "2.0", "-1.5", "0.0", "-0.0", "1e10", "float('inf')", "float('nan')"])
        if kind == "bool":
            return R.choice(["True", "False"])
        if kind == "none":
            return "None"
        if kind == "str":
            return R.choice(["'a'", "''", "'abc'", "'x y'", "'\\u00e9'", "'A1'", "'{}'"])
        if kind == "bytes":
            return R.choice(["b'a'", "b''", "b'xyz'"])
        if kind == "list":
            return R.choice(["[]", "[1, 2, 3]", "['a', 'b']", "[0]", "[[1], [2]]"])
        if kind == "tuple":
            return R.choice(["()", "(1, 2)", "('a',)", "(1, 'a', None)"])
        if kind == "dict":
            return R.choice(["{}", "{'a': 1}", "{1: 2, 3: 4}", "{'k': [1]}"])
        if kind == "set":
            return R.choice(["set()", "{1, 2}", "{'a'}"])
        raise AssertionError(kind)

    # ----- expressions
    def expr(self, kind, d):
        R = self.R
        if self.ill_budget > 0 and R.bool(1, 4):
            self.ill_budget -= 1
            kind = R.choice(KINDS)
        if d >= self.max_depth or R.bool(1, 4):
            return self.wrapT(self.atom(kind))
        s = self.compound(kind, d + 1)
        return self.wrapT(s)

    def atom(self, kind):
        vs = self.vars_of(kind)
        if vs and self.R.bool(1, 2):
            return self.R.choice(vs)
        return self.lit(kind)

    def small_int(self):
        return self.R.choice(["0", "1", "2", "3", "-1", "5"])

    def compound(self, kind, d):
        R = self.R
        e = self.expr
        generic = [
            (2, "ifexp"),
            (1, "boolop"),
            (1, "subscript_list"),
            (1, "subscript_dict"),
            (1, "named"),
            (1, "lambda_call"),
            (1, "paren"),
        ]
        spec = {
            "int": [(4, "arith"), (2, "bit"), (1, "unary"), (2, "len"), (1, "intcall"), (1, "pow"), (1, "sum"), (1, "index_m")],
            "float": [(3, "farith"), (1, "div"), (1, "floatcall"), (1, "funary")],
            "bool": [(4, "compare"), (2, "not"), (2, "in"), (1, "is"), (1, "boolcall"), (1, "chain"), (1, "strpred")],
            "none": [(1, "none_call")],
            "str": [(3, "concat"), (2, "strmeth"), (2, "fstring"), (1, "strmul"), (1, "strcall"), (1, "strslice"), (1, "pct"), (1, "join")],
            "bytes": [(2, "bconcat"), (1, "bslice"), (1, "bcall")],
            "list": [(3, "listdisp"), (3, "listcomp"), (1, "listadd"), (1, "listslice"), (1, "listcall"), (1, "sorted"), (1, "listmul")],
            "tuple": [(3, "tupdisp"), (1, "tupadd"), (1, "tupcall"), (1, "divmod")],
            "dict": [(3, "dictdisp"), (2, "dictcomp"), (1, "dictcall"), (1, "dictor")],
            "set": [(2, "setdisp"), (2, "setcomp"), (1, "setop"), (1, "setcall")],
        }[kind]
        which = R.weighted(spec + generic)
        k = kind
        if which == "ifexp":
            return f"({e(k, d)} if {e(R.choice(['bool', 'int', 'str', 'list']), d)} else {e(k, d)})"
        if which == "boolop":
            op = R.choice(["and", "or"])
            n = R.int(2, 3)
            return "(" + f" {op} ".join(e(k, d) for _ in range(n)) + ")"
        if which == "subscript_list":
            n = R.int(1, 3)
            items = ", ".join(e(k, d) for _ in range(n))
            idx = R.choice(["0", "-1", str(n - 1), str(n)]) if R.bool(1, 8) else R.choice(["0", "-1", str(n - 1)])
            return f"[{items}][{self.wrapT(idx)}]"
        if which == "subscript_dict":
            key = R.choice(["'k'", "1", "(1, 2)", "None"])
            miss = R.bool(1, 10)
            return f"{{{key}: {e(k, d)}}}[{self.wrapT(key if not miss else repr('zz'))}]"
        if which == "named":
            nm = f"w{R.int(0, 2)}"
            self.vars[nm] = None  # bound as a side effect; kind unknown to keep it out of typed positions
            s = f"({nm} := {e(k, d)})"
            return s
        if which == "lambda_call":
            return self.lambda_call(k, d)
        if which == "paren":
            return f"({e(k, d)})"
        # ---- int
        if which == "arith":
            op = R.choice(["+", "-", "*", "//", "%"])
            return f"({e('int', d)} {op} {e(R.choice(['int', 'int', 'bool']), d)})"
        if which == "bit":
            op = R.choice(["&", "|", "^", "<<", ">>"])
            if op in ("<<", ">>"):
                return f"({e('int', d)} {op} {self.wrapT(self.R.choice(['0', '1', '3', '64', '-1']))})"
            return f"({e('int', d)} {op} {e('int', d)})"
        if which == "unary":
            ops = ["-", "~"] + (["+"] if self.feat["uadd"] else [])
            return f"({R.choice(ops)}{e(R.choice(['int', 'bool']), d)})"
        if which == "len":
            return f"len({e(R.choice(['str', 'list', 'tuple', 'dict', 'set', 'bytes']), d)})"
        if which == "intcall":
            c = R.choice(["abs({})", "int({})", "min({}, 3)", "max(2, {})", "round({})", "ord('a') + {}", "hash({}) * 0"])
            return c.format(e(R.choice(["int", "bool", "float"]) if "int(" in c or "round" in c else "int", d))
        if which == "pow":
            if self.pow_budget <= 0:
                return self.atom("int")
            self.pow_budget -= 1
            return f"({self.R.choice(['2', '3', '-2', '10', '0'])} ** {self.wrapT(self.R.choice(['0', '1', '2', '5', '64', '-1']))})"
        if which == "sum":
            return f"sum([{e('int', d)}, {e('int', d)}])"
        if which == "index_m":
            return f"{e('list', d)}.count({e('int', d)})"
        # ---- float
        if which == "farith":
            op = R.choice(["+", "-", "*"])
            return f"({e('float', d)} {op} {e(R.choice(['float', 'int']), d)})"
        if which == "div":
            return f"({e(R.choice(['int', 'float']), d)} / {e(R.choice(['int', 'float']), d)})"
        if which == "floatcall":
            return R.choice(["float({})", "abs({})", "round({}, 1)"]).format(e(R.choice(["int", "float"]), d))
        if which == "funary":
            return f"(-{e('float', d)})"
        # ---- bool
        if which == "compare":
            op = R.choice(["==", "!=", "<", "<=", ">", ">="])
            kk = R.choice(["int", "float", "str", "list", "tuple"])
            return f"({e(kk, d)} {op} {e(kk if kk != 'float' else 'int', d)})"
        if which == "not":
            return f"(not {e(R.choice(KINDS), d)})"
        if which == "in":
            op = R.choice(["in", "not in"])
            c = R.choice(["list", "tuple", "dict", "set", "str"])
            item = "str" if c == "str" else R.choice(["int", "str"])
            return f"({e(item, d)} {op} {e(c, d)})"
        if which == "is":
            return f"({e(R.choice(['none', 'bool', 'list']), d)} {R.choice(['is', 'is not'])} {e(R.choice(['none', 'bool']), d)})"
        if which == "boolcall":
            return R.choice(["bool({})", "isinstance({}, int)", "isinstance({}, (str, list))", "callable({})"]).format(e(R.choice(KINDS), d))
        if which == "chain":
            if not self.feat["compare_chain"]:
                # chains are generated with side-effect-free, non-raising operands only while the finding is open
                return f"({self.atom('int')} < {self.atom('int')} <= {self.atom('int')})"
            ops = [R.choice(["<", "<=", "==", "!=", ">", ">="]) for _ in range(R.int(2, 3))]
            s = e("int", d)
            for op in ops:
                s += f" {op} {e('int', d)}"
            return f"({s})"
        if which == "strpred":
            return f"{e('str', d)}.{R.choice(['startswith', 'endswith'])}({e('str', d)})"
        if which == "none_call":
            return R.choice([f"{e('list', d)}.sort()", f"{e('dict', d)}.get('zz')", f"{e('list', d)}.append({e('int', d)})", "None"])
        # ---- str
        if which == "concat":
            return f"({e('str', d)} + {e('str', d)})"
        if which == "strmeth":
            m = R.choice(["upper()", "lower()", "strip()", "title()", "replace('a', 'b')", "zfill(4)", "center(5, '*')", "format(1, x=2)" if self.feat["call_kw_order"] else "format(1)"])
            return f"{e('str', d)}.{m}"
        if which == "fstring":
            return self.fstring(d)
        if which == "strmul":
            return f"({e('str', d)} * {self.wrapT(self.small_int())})"
        if which == "strcall":
            c = R.choice(["str({})", "repr({})", "chr(97 + len({}))" if False else "str({})", "'%s' % ({},)"])
            return c.format(e(R.choice(["int", "float", "bool", "none", "str", "list", "tuple", "dict", "bytes"]), d))
        if which == "strslice":
            return f"{e('str', d)}[{self.slice_text(d)}]"
        if which == "pct":
            return f"('%s-%r' % ({e(R.choice(['int', 'str']), d)}, {e(R.choice(['str', 'float', 'list']), d)}))"
        if which == "join":
            return f"{e('str', d)}.join([{e('str', d)}, {e('str', d)}])"
        # ---- bytes
        if which == "bconcat":
            return f"({e('bytes', d)} + {e('bytes', d)})"
        if which == "bslice":
            return f"{e('bytes', d)}[{self.slice_text(d)}]"
        if which == "bcall":
            return R.choice([f"bytes([{e('int', d)} % 256])", f"{e('str', d)}.encode()", f"bytes({self.wrapT(self.small_int())})"])
        # ---- list
        if which == "listdisp":
            n = R.int(0, 4)
            parts = []
            for _ in range(n):
                if R.bool(1, 5):
                    parts.append("*" + e(R.choice(["list", "tuple", "str"]), d))
                else:
                    parts.append(e(R.choice(KINDS[:9]), d))
            return "[" + ", ".join(parts) + "]"
        if which == "listcomp":
            return self.comp("list", d)
        if which == "listadd":
            return f"({e('list', d)} + {e('list', d)})"
        if which == "listslice":
            return f"{e('list', d)}[{self.slice_text(d)}]"
        if which == "listcall":
            c = R.choice(["list({})", "list(reversed({}))", "list(enumerate({}))", "list(zip({0}, {0}))", "list(range(len({})))", "list(map(str, {}))"])
            return c.format(e(R.choice(["list", "tuple", "str"]), d))
        if which == "sorted":
            if self.feat["call_kw_order"] or True:
                return f"sorted({e('list', d)}, reverse={e('bool', d)})" if R.bool() else f"sorted({e('list', d)})"
        if which == "listmul":
            return f"({e('list', d)} * {self.wrapT(self.small_int())})"
        # ---- tuple
        if which == "tupdisp":
            n = R.int(1, 3)
            parts = []
            for _ in range(n):
                if R.bool(1, 6):
                    parts.append("*" + e(R.choice(["list", "tuple"]), d))
                else:
                    parts.append(e(R.choice(KINDS[:9]), d))
            return "(" + ", ".join(parts) + ",)"
        if which == "tupadd":
            return f"({e('tuple', d)} + {e('tuple', d)})"
        if which == "tupcall":
            return f"tuple({e(R.choice(['list', 'str', 'tuple']), d)})"
        if which == "divmod":
            return f"divmod({e('int', d)}, {e('int', d)})"
        # ---- dict
        if which == "dictdisp":
            n = R.int(0, 3)
            parts = []
            for i in range(n):
                if R.bool(1, 5):
                    parts.append("**" + e("dict", d))
                else:
                    if self.feat["dict_display_order"]:
                        # keys stay hashable: *when* an unhashable key raises relative to later operands is
                        # a CPython code-generation detail (BUILD_MAP vs MAP_ADD), not language semantics
                        ill, self.ill_budget = self.ill_budget, 0
                        key = e(R.choice(['str', 'int']), d)
                        self.ill_budget = ill
                        parts.append(f"{key}: {e(R.choice(KINDS), d)}")
                    else:
                        # side-effect-free keys or values only while the finding is open
                        if R.bool():
                            parts.append(f"{self.atom(R.choice(['str', 'int']))}: {e(R.choice(KINDS), d)}")
                        else:
                            parts.append(f"{e(R.choice(['str', 'int']), d)}: {self.atom(R.choice(['str', 'int', 'none']))}")
            return "{" + ", ".join(parts) + "}"
        if which == "dictcomp":
            return self.comp("dict", d)
        if which == "dictcall":
            return R.choice([f"dict({e('dict', d)})", f"dict(zip({e('str', d)}, {e('list', d)}))", f"dict(a={e('int', d)})", f"dict.fromkeys({e('list', d) if False else e('str', d)}, {e('int', d)})"])
        if which == "dictor":
            return f"({e('dict', d)} | {e('dict', d)})"
        # ---- set
        if which == "setdisp":
            n = R.int(1, 3)
            return "{" + ", ".join(e(R.choice(["int", "str", "tuple"]), d) for _ in range(n)) + "}"
        if which == "setcomp":
            return self.comp("set", d)
        if which == "setop":
            return f"({e('set', d)} {R.choice(['|', '&', '-', '^'])} {e('set', d)})"
        if which == "setcall":
            return f"set({e(R.choice(['list', 'str', 'tuple']), d)})"
        raise AssertionError(which)

    def slice_text(self, d):
        R = self.R
        parts = []
        for i in range(R.int(2, 3)):
            if R.bool(1, 3):
                parts.append("")
            else:
                parts.append(self.wrapT(R.choice(["0", "1", "2", "-1", "-2", "None", "5"] + (["0"] if i == 2 and R.bool(1, 8) else []))))
        if len(parts) == 3 and parts[2] == "0":
            pass
        return ":".join(parts)

    def fstring(self, d):
        R = self.R
        n = R.int(1, 3)
        s = ""
        for _ in range(n):
            s += R.choice(["", "a", " ", "{{", "}}"])
            k = R.choice(["int", "float", "str", "bool", "none", "list", "tuple", "dict"])
            inner = self.expr(k, d + 1)
            # no quotes-of-same-kind problem on 3.12, but keep braces balanced: parenthesise
            inner = f"({inner})"
            conv = ""
            if self.feat["fstring_conv"] and R.bool(1, 4):
                conv = R.choice(["!r", "!s", "!a"])
            spec = ""
            if R.bool(1, 3):
                if k == "int" and not conv:
                    spec = ":" + R.choice(["d", "5d", "x", "05", ",", ">4", "{" + self.wrapT("4") + "}"])
                elif k == "float" and not conv:
                    spec = ":" + R.choice([".2f", "8.3f", "e", ".0f", "g"])
                elif k == "str" or conv:
                    spec = ":" + R.choice([">5", "<3", "^7", "{" + self.wrapT("'>4'") + "}"])
            s += "{" + inner + conv + spec + "}"
        return "f" + repr(s).replace("\\\\", "\\") if False else "f'" + s.replace("'", '"') + "'"

    def comp(self, out, d):
        R = self.R
        ngen = R.int(1, 2)
        used = []
        gens = []
        avail = ["v", "u", "k2"]
        # occasionally shadow an existing global to test comprehension scoping
        shadow = [n for n in self.vars if n.startswith("g")]
        hidden = {}
        try:
            return self._comp(out, d, ngen, used, gens, avail, shadow, hidden)
        finally:
            self.vars.update(hidden)

    def _comp(self, out, d, ngen, used, gens, avail, shadow, hidden):
        R = self.R
        for gi in range(ngen):
            form = R.choice(["seq", "seq", "range", "items", "zip"])
            nm = avail[gi]
            if shadow and R.bool(1, 5):
                nm = R.choice(shadow)
                # a shadowed outer name is not read inside the comprehension (open finding
                # C01-comprehension-shadow-unbound: pyscript would see the outer value, Python raises)
                if nm in self.vars:
                    hidden[nm] = self.vars.pop(nm)
            if form == "seq":
                it = self.expr(R.choice(["list", "tuple", "str"]), d + 1)
                tgt, vk = nm, None
            elif form == "range":
                it = f"range({self.wrapT(self.R.choice(['0', '1', '2', '3']))})"
                tgt, vk = nm, "int"
            elif form == "items":
                it = f"{self.expr('dict', d + 1)}.items()"
                tgt, vk = f"{nm}, {nm}2", None
            else:
                it = f"zip({self.expr('list', d + 1)}, {self.expr('str', d + 1)})"
                tgt, vk = f"({nm}, {nm}2)", None
            conds = ""
            for _ in range(R.weighted([(3, 0), (2, 1), (1, 2)])):
                c = R.choice([f"{nm}", f"{nm} != 1", f"not {nm}", "True", self.expr("bool", d + 1)])
                conds += f" if {c}"
            gens.append(f"for {tgt} in {it}{conds}")
            used.append(nm)
        elt = R.choice([used[-1], f"({used[0]}, {used[-1]})", f"str({used[-1]})", f"[{used[-1]}]"])
        if R.bool(1, 3):
            elt = f"T('{self.newtag()}', {elt})"
        if out == "list":
            return f"[{elt} for " + " for ".join(g[4:] for g in gens) + "]"
        if out == "set":
            elt2 = f"str({used[-1]})"
            return f"{{{elt2} for " + " for ".join(g[4:] for g in gens) + "}"
        key = f"str({used[-1]})"
        if self.feat["dict_display_order"] and R.bool(1, 3):
            key = f"T('{self.newtag()}', {key})"
        return f"{{{key}: {elt} for " + " for ".join(g[4:] for g in gens) + "}"

    def lambda_call(self, kind, d):
        R = self.R
        if not self.lambdas:
            return self.atom(kind)
        name = R.choice(sorted(self.lambdas))
        npos, has_def, has_var, has_kw = self.lambdas[name]
        args = []
        for _ in range(npos):
            args.append(self.expr(R.choice(KINDS), d + 1))
        if has_var and R.bool():
            if R.bool():
                args.append("*" + self.expr(R.choice(["list", "tuple"]), d + 1))
            else:
                args.append(self.expr("int", d + 1))
        kws = []
        if self.feat["call_kw_order"] or not args or all(not a.startswith("T(") and "T(" not in a for a in args):
            if has_def and R.bool():
                kws.append(f"b={self.expr(R.choice(KINDS), d + 1)}")
            if has_kw and R.bool():
                kws.append(f"z={self.expr('int', d + 1)}")
                if R.bool(1, 3):
                    kws.append("**" + self.expr("dict", d + 1) if False else "**{'y': " + self.expr("int", d + 1) + "}")
            if not self.feat["call_kw_order"]:
                # keep keyword values free of side effects/raising while positional ones may have them
                kws = [kw for kw in kws if "T(" not in kw and "(" not in kw.split("=", 1)[-1]]
        if R.bool(1, 12):
            args.append(self.expr("int", d + 1))  # possibly too many args -> TypeError in both
        call = f"{name}(" + ", ".join(args + kws) + ")"
        # result is a tuple of args; project to something of approximately the requested kind
        return f"{call}[0]" if kind != "tuple" else call

    # ----- statements
    def stmt(self):
        R = self.R
        self.ill_budget = 1 if R.bool(1, 10) else 0
        which = R.weighted(
            [
                (6, "assign"),
                (2, "multi"),
                (2, "unpack"),
                (2, "subassign"),
                (2, "aug"),
                (1, "ann"),
                (1, "del"),
                (2, "exprstmt"),
                (1, "lambda"),
                (1, "method_mut"),
            ]
        )
        return getattr(self, "s_" + which)()

    def newvar(self, kind):
        nm = f"g{self.R.int(0, 5)}"
        return nm

    def s_assign(self):
        k = self.R.choice(KINDS)
        ill = self.ill_budget
        e = self.expr(k, 0)
        nm = self.newvar(k)
        self.vars[nm] = k if not ill else None
        return f"{nm} = {e}"

    def s_multi(self):
        k = self.R.choice(KINDS)
        ill = self.ill_budget
        e = self.expr(k, 1)
        a, b = self.newvar(k), self.newvar(k)
        self.vars[a] = self.vars[b] = k if not ill else None
        return f"{a} = {b} = {e}"

    def s_unpack(self):
        R = self.R
        n = R.int(2, 3)
        form = R.choice(["plain", "star", "nested", "mismatch"] + (["listt"] if self.feat["list_target"] else []))
        names = [self.newvar(None) for _ in range(4)]
        vals = [self.expr(R.choice(KINDS), 1) for _ in range(n)]
        rhs = R.choice(["({},)", "[{}]"]).format(", ".join(vals))
        for nm in names:
            self.vars[nm] = None
        if form == "plain":
            return f"{', '.join(names[:n])} = {rhs}"
        if form == "listt":
            return f"[{', '.join(names[:n])}] = {rhs}"
        if form == "star":
            pos = R.int(0, 1)
            t = [names[0], names[1]]
            t[pos] = "*" + t[pos]
            return f"{', '.join(t)} = {rhs}"
        if form == "nested":
            return f"({names[0]}, {names[1]}), {names[2]} = ({self.expr('tuple', 1)}, {vals[0]})"
        return f"{', '.join(names[: n + R.choice([-1, 1])])}{',' if n == 2 else ''} = {rhs}"

    def s_subassign(self):
        R = self.R
        ls = self.vars_of("list")
        ds = self.vars_of("dict")
        if ls and (not ds or R.bool()):
            l = R.choice(ls)
            if R.bool(2, 3):
                return f"{l}[{self.wrapT(R.choice(['0', '-1', '1', '9']))}] = {self.expr(R.choice(KINDS), 1)}"
            return f"{l}[{self.slice_text(1)}] = {self.expr(R.choice(['list', 'tuple', 'str']), 1)}"
        if ds:
            dd = R.choice(ds)
            return f"{dd}[{self.expr(R.choice(['str', 'int', 'tuple']), 1)}] = {self.expr(R.choice(KINDS), 1)}"
        return self.s_assign()

    def s_aug(self):
        R = self.R
        cands = [(n, k) for n, k in self.vars.items() if k in ("int", "float", "str", "tuple", "bytes", "bool")]
        if self.feat["aug_inplace"]:
            cands += [(n, k) for n, k in self.vars.items() if k in ("list", "dict", "set")]
        if not cands:
            return self.s_assign()
        n, k = R.choice(cands)
        if k in ("int", "bool"):
            op = R.choice(["+", "-", "*", "//", "%", "&", "|", "^"])
            rhs = self.expr("int", 1)
            self.vars[n] = "int"
        elif k == "float":
            op = R.choice(["+", "-", "*", "/"])
            rhs = self.expr(R.choice(["float", "int"]), 1)
        elif k in ("str", "tuple", "bytes", "list"):
            op = R.choice(["+", "+", "*"])
            rhs = self.expr(k, 1) if op == "+" else self.wrapT(self.small_int())
        elif k == "dict":
            op, rhs = "|", self.expr("dict", 1)
        else:
            op, rhs = R.choice(["|", "&", "-", "^"]), self.expr("set", 1)
        if self.ill_budget:
            self.vars[n] = None
        return f"{n} {op}= {rhs}"

    def s_ann(self):
        k = self.R.choice(KINDS)
        nm = self.newvar(k)
        ill = self.ill_budget
        e = self.expr(k, 1)
        self.vars[nm] = k if not ill else None
        return f"{nm}: {self.R.choice(['int', 'str', 'list', 'None'])} = {e}"

    def s_del(self):
        R = self.R
        if not self.vars:
            return self.s_assign()
        ls = self.vars_of("list")
        ds = self.vars_of("dict")
        form = R.choice(["name", "item", "two"])
        if form == "item" and (ls or ds):
            if ls and (not ds or R.bool()):
                return f"del {R.choice(ls)}[{R.choice(['0', '-1', '0:1', '::2', '7'])}]"
            return f"del {R.choice(ds)}[{self.expr(R.choice(['str', 'int']), 1)}]"
        names = sorted(self.vars)
        a = R.choice(names)
        if form == "two" and len(names) >= 2:
            b = R.choice([x for x in names if x != a])
            self.vars.pop(a, None)
            self.vars.pop(b, None)
            return f"del {a}, {b}"
        self.vars.pop(a, None)
        return f"del {a}"

    def s_exprstmt(self):
        return self.expr(self.R.choice(KINDS), 0)

    def s_lambda(self):
        R = self.R
        name = f"f{R.int(0, 1)}"
        npos = R.int(0, 2)
        has_def, has_var, has_kw = R.bool(), R.bool(), R.bool()
        params = [f"a{i}" for i in range(npos)]
        ret = list(params)
        if has_def:
            params.append("b=" + self.lit(R.choice(["int", "str", "none"])))
            ret.append("b")
        if has_var:
            params.append("*c")
            ret.append("c")
        if has_kw:
            params.append("**k")
            ret.append("sorted(k.items())")
        self.lambdas[name] = (npos, has_def, has_var, has_kw)
        return f"{name} = lambda {', '.join(params)}: ({', '.join(ret)}{',' if ret else ''} None)"

    def s_method_mut(self):
        R = self.R
        ls, ds, ss = self.vars_of("list"), self.vars_of("dict"), self.vars_of("set")
        opts = []
        if ls:
            l = R.choice(ls)
            opts += [f"{l}.append({self.expr(R.choice(KINDS), 1)})", f"{l}.extend({self.expr('list', 1)})", f"{l}.insert({self.wrapT('0')}, {self.expr('int', 1)})", f"{l}.pop()", f"{l}.reverse()"]
        if ds:
            dd = R.choice(ds)
            opts += [f"{dd}.update({self.expr('dict', 1)})", f"{dd}.setdefault({self.expr('str', 1)}, {self.expr('list', 1)})", f"{dd}.pop({self.expr('str', 1)}, None)"]
        if ss:
            s = R.choice(ss)
            opts += [f"{s}.add({self.expr('int', 1)})", f"{s}.discard({self.expr('int', 1)})"]
        if not opts:
            return self.s_assign()
        return R.choice(opts)

    def program(self):
        n = self.R.int(1, 8)
        lines = []
        for _ in range(n):
            lines.append(self.stmt())
        return "\n".join(lines)


# --------------------------------------------------------------------------------------
# shard entry points
# --------------------------------------------------------------------------------------

REGRESS = [
    # (id, source) - fixed findings and hand-written edge cases; must agree with CPython
    ("lambda-default", "f = lambda a, b=2, *c, **k: (a, b, c, k)\nx = f(1)\ny = f(1, 3, 4, z=5)"),
    ("comp-scope", "v = 9\nx = [v for v in range(3)]\ny = v"),
    ("comp-scope-empty", "x = [v for v in []]\ny = 1"),
    ("walrus-comp", "x = [(q := i) for i in range(3)]\nz = q"),
    ("fstring-nested", "w = 5\nx = f'{3.14159:{w}.2f}|{\"a\":>{w}}'"),
    ("slice-assign", "l = [1, 2, 3, 4]\nl[1:3] = 'ab'\nl[::2] = (7, 8)"),
    ("del-slice", "l = [1, 2, 3, 4]\ndel l[::2]"),
    ("star-call", "f = lambda *a, **k: (a, sorted(k.items()))\nx = f(*[1, 2], *(3,), **{'a': 1}, **{'b': 2})"),
    ("bool-return-operand", "x = [] or 0 or ''\ny = 1 and 'a' and [0]\nz = None and 1"),
]


def is_nontrivial(src, o1):
    return len(node_types(src)) >= 2 and (len(o1["log"]) > 0 or len(o1["globals"]) > 0)


CHECK = DiffCheck(
    PROP, RULE, PREDICATES, nontrivial=is_nontrivial,
    assumptions=[
        "CPython 3.12 in the same process is the reference semantics",
        "generated programs avoid constructs listed as open findings in known_findings.json (counted under known_finding_hits when they still occur)",
        "sets are only observed through order-insensitive operations; identity of equal immutable literals and the instant at which an unhashable dict-display key raises are CPython code-generation details and not compared",
    ],
)


async def shard_main(tier, shard_i, shard_n):
    res = core.ShardResult()
    feat = features()
    async with l1.bare_hass():
        if shard_i == 0:
            for rid, src in REGRESS + CHECK.regress_from_findings():
                await CHECK.check_one(res, "regress:" + rid, src)
        await CHECK.run_programs(res, table_programs(feat), shard_i, shard_n)
        n_random = {"quick": 8000, "thorough": 320000}[tier]
        depth = {"quick": 4, "thorough": 6}[tier]
        await CHECK.run_random(res, lambda R: Gen(R, feat, depth).program(), n_random, shard_i, shard_n)
    return res


def run_shard(tier, shard_i, shard_n):
    return asyncio.run(shard_main(tier, shard_i, shard_n))


def replay(path):
    return CHECK.replay(path)


def main(tier):
    return CHECK.main(tier, extra={"exhaustive_tables": True, "features_enabled": features()})
