"""C18 - script errors are contained and attributed to the right file, function and line."""

from __future__ import annotations

import asyncio
import json
import re
import traceback

from vlib import core, l1, l3
from vlib.modelcheck import ModelCheck

PROP = "C18"
FNAME = "script_under_test.py"

FAULTS = [
    ("ValueError", "raise ValueError('boom {t}')"),
    ("KeyError", "raise KeyError('k{t}')"),
    ("ZeroDivisionError", "zz = 1 // 0"),
    ("NameError", "zz = undefined_name_{t}"),
    ("TypeError", "zz = 'a' + 1"),
    ("IndexError", "zz = [1, 2][5]"),
    ("AttributeError", "zz = None.nope"),
    ("MyErr", "raise MyErr('custom {t}')"),
    ("RuntimeError", "raise RuntimeError('chained {t}') from ValueError('cause')"),
    ("AssertionError", "assert 1 == 2, 'assert {t}'"),
    ("LookupError-from-none", "try:\n    zz = int('x')\nexcept ValueError:\n    raise LookupError('translated {t}') from None"),
    ("LookupError-from-err", "try:\n    zz = int('x')\nexcept ValueError as err:\n    raise LookupError('translated {t}') from err"),
    # the failing operation itself spans several source lines: Python names the line on which it starts
    ("ZeroDivisionError-multiline", "zz = (1 /\n      (n -\n       n))"),
    ("KeyError-multiline", "zz = {{'a': 1}}[\n    'k{t}'\n]"),
    ("TypeError-multiline", "zz = len(\n    5,\n)"),
    ("LookupError-context", "try:\n    zz = {{}}['k{t}']\nexcept KeyError:\n    raise LookupError('while handling {t}')"),
]

MOD_FNAME = "modules/c18lib.py"
MOD_SRC = """
def relay(cb, n):
    x = n
    return cb(x)

class Meter:
    def __init__(self, k):
        self.k = k

    def read(self, cb, n):
        y = n + self.k
        return cb(y)

def scale(n):
    if n >= 0:
        raise ArithmeticError('scale ' + str(n))
    return n
"""


def gen_program(R):
    """A call chain f0 -> f1 -> ... with one fault at a generated statement position; returns (lines, meta)."""
    depth = R.int(1, 5)
    fault_i = R.int(0, len(FAULTS) - 1)
    L = ["class MyErr(Exception):", "    pass", ""]
    styles = []
    # optional user decorator
    use_deco = R.bool(1, 4)
    if use_deco:
        L += ["def deco(f):", "    def wrapper(*a, **k):", "        pre = 1", "        return f(*a, **k)", "    return wrapper", ""]
    use_class = R.bool(1, 3)
    use_mod = R.bool(1, 3)
    for d in range(depth - 1, -1, -1):
        last = d == depth - 1
        style = R.choice(["plain", "plain", "multiline", "multicall", "comp", "method"] + (["relay", "meter"] if use_mod else []) + ["recurse"]) if not last else "leaf"
        if style == "method" and not use_class:
            style = "plain"
        styles.append(style)
        pad = ""
        if use_deco and d == 1 and depth > 1:
            L.append("@deco")
        if style == "method":
            L += [f"class K{d}:", f"    def m(self, n):"]
            pad = "    "
            hdr_done = True
        else:
            L.append(f"def f{d}(n):")
        body = []
        for _ in range(R.int(0, 2)):
            body.append(R.choice(["a = n + 1", "b = [n, n]", "if n > 100:\n        pass", "c = {'k': n}"]))
        if last and use_mod and R.bool(1, 4):
            body.append("return scale(n)")
            fault_i = -1
        elif last:
            body.append(FAULTS[fault_i][1].format(t=d))
        else:
            nxt = f"K{d + 1}().m(n + 1)" if styles and False else None
            callee = f"f{d + 1}(n + 1)"
            if style == "multiline":
                body.append("r = (n +\n         1 +\n         " + callee + "\n         + 2)")
            elif style == "multicall":
                # the call itself is written over several lines
                body.append(f"r = f{d + 1}(\n    n +\n    1,\n)")
            elif style == "comp":
                body.append(f"r = [{callee} for q in [1]]")
            elif style == "relay":
                body.append(f"r = relay(f{d + 1}, n + 1)")
            elif style == "meter":
                body.append(f"r = Meter(2).read(f{d + 1}, n)")
            elif style == "recurse":
                # the function calls itself twice before going on: equal consecutive (file, function) frames
                body.append(f"if n < 1000:\n    return f{d}(n + 1000)\nr = {callee}")
            else:
                body.append(f"r = {callee}")
            body.append("return r")
        for b in body:
            for bl in b.split("\n"):
                L.append(pad + "    " + bl)
        if style == "method":
            L += [f"def f{d}(n):", f"    return K{d}().m(n)"]
        L.append("")
    L.append("entry_result = None")
    L.append("entry_result = f0(0)")
    return "\n".join(L), {"fault": FAULTS[fault_i][0] if fault_i >= 0 else "module-ArithmeticError", "depth": depth, "deco": use_deco, "mod": use_mod,
                           "recurse": "recurse" in styles}


FILES = (FNAME, MOD_FNAME)
CTX_NAME = "file.script_under_test"
SEP_RE = re.compile(r"\n(The above exception was the direct cause of the following exception:|During handling of the above exception, another exception occurred:)\n")
FRAME_RE = re.compile(r'File "([^"]+)", line (\d+), in (.+)')


def norm_frames(frames):
    """(file, function, line) triples of script frames; the module-level frame is identified by its file only."""
    out = []
    for fn, name, line in frames:
        if fn not in FILES:
            continue
        if fn == FNAME and name in ("<module>", CTX_NAME):
            name = "<module>"
        out.append([fn, name, line])
    return out


def cpython_report(src, use_mod):
    g = {"__name__": "script"}
    if use_mod:
        gm = {"__name__": "c18lib"}
        exec(compile(MOD_SRC, MOD_FNAME, "exec"), gm)  # noqa: S102
        g.update({k: gm[k] for k in ("relay", "Meter", "scale")})
    try:
        exec(compile(src, FNAME, "exec"), g)  # noqa: S102
    except Exception as e:  # noqa: BLE001
        parts = []
        exc = e
        while exc is not None:
            frames = norm_frames([(f.filename, f.name, f.lineno) for f in traceback.extract_tb(exc.__traceback__)])
            if exc.__cause__ is not None:
                link, nxt = "cause", exc.__cause__
            elif exc.__context__ is not None and not exc.__suppress_context__:
                link, nxt = "context", exc.__context__
            else:
                link, nxt = None, None
            parts.append({"type": type(exc).__name__, "frames": frames, "link": link})
            exc = nxt
        return {"type": type(e).__name__, "message": str(e), "chain": parts[::-1]}
    return {"type": None, "message": None, "chain": []}


async def pyscript_report(src, use_mod):
    from custom_components.pyscript.eval import AstEval, EvalExceptionFormatter
    from custom_components.pyscript.function import Function
    from custom_components.pyscript.global_ctx import GlobalContext, GlobalContextMgr

    sym = {"__name__": "script"}
    if use_mod:
        mctx = GlobalContext("modules.c18lib", global_sym_table={"__name__": "c18lib"}, manager=GlobalContextMgr)
        mctx.file_path = MOD_FNAME
        mctx.source = MOD_SRC
        m_ast = AstEval("modules.c18lib", mctx)
        Function.install_ast_funcs(m_ast)
        m_ast.parse(MOD_SRC, filename=MOD_FNAME)
        await m_ast.eval()
        sym.update({k: mctx.global_sym_table[k] for k in ("relay", "Meter", "scale")})
    gctx = GlobalContext(CTX_NAME, global_sym_table=sym, manager=GlobalContextMgr)
    gctx.file_path = FNAME
    gctx.source = src
    ast_ctx = AstEval(CTX_NAME, gctx)
    Function.install_ast_funcs(ast_ctx)
    try:
        ast_ctx.parse(src, filename=FNAME)
        await ast_ctx.eval()
    except Exception as e:  # noqa: BLE001
        text = "".join(EvalExceptionFormatter(e).format())
        pieces = SEP_RE.split(text)
        parts = []
        for k in range(0, len(pieces), 2):
            body = pieces[k]
            frames = norm_frames([(m.group(1), m.group(3).strip(), int(m.group(2))) for m in FRAME_RE.finditer(body)])
            last_line = [ln for ln in body.strip().splitlines() if ln and not ln.startswith(" ")]
            tname = re.match(r"([\w.]+)", last_line[-1]).group(1).split(".")[-1] if last_line else None
            link = None
            if k + 1 < len(pieces):
                link = "cause" if pieces[k + 1].startswith("The above exception was the direct cause") else "context"
            parts.append({"type": tname, "frames": frames, "link": link})
        # the separator after part k says how part k+1 refers to part k: store it on the referring part
        chain = []
        for k, prt in enumerate(parts):
            chain.append({"type": prt["type"], "frames": prt["frames"], "link": parts[k - 1]["link"] if k > 0 else None})
        return {"type": type(e).__name__, "message": str(e), "chain": chain}, text
    return {"type": None, "message": None, "chain": []}, ""


# ------------------------------------------------------------------------------------------
# containment (integration)
# ------------------------------------------------------------------------------------------

ENTRIES = ["trigger_func", "service", "state_trigger_expr", "state_active_expr", "event_filter", "done_callback", "task_create", "load_time", "time_trigger_func"]


def containment_files(case):
    e = case["entry"]
    exc_stmt = {"ValueError": "raise ValueError('contained-boom')", "ZeroDivisionError": "zz = 1 // 0", "MyErr": "raise MyErr('contained-boom')", "NameError": "zz = undefined_thing"}[case["exc"]]
    bad = ["class MyErr(Exception):", "    pass", "calls = 0", ""]
    if e == "trigger_func":
        bad += ["@event_trigger('bad_ev')", "def victim(n=None, **kw):", "    global calls", "    calls += 1", "    vrec('bad', 'enter', n)", "    if n % 2 == 0:", f"        {exc_stmt}", "    vrec('bad', 'ok', n)"]
    elif e == "time_trigger_func":
        bad += ["@time_trigger('period(now + 1s, 2s)')", "def victim(**kw):", "    global calls", "    calls += 1", "    vrec('bad', 'enter', calls)", "    if calls % 2 == 1:", f"        {exc_stmt}", "    vrec('bad', 'ok', calls)"]
    elif e == "service":
        bad += ["@service", "def victim(n=None):", "    vrec('bad', 'enter', n)", "    if n % 2 == 0:", f"        {exc_stmt}", "    vrec('bad', 'ok', n)"]
    elif e == "state_trigger_expr":
        bad += ["@state_trigger(\"int(pyscript.v) > 0\")", "def victim(value=None, **kw):", "    vrec('bad', 'ok', str(value))"]
    elif e == "state_active_expr":
        bad += ["@event_trigger('bad_ev')", "@state_active(\"int(pyscript.v) > 0\")", "def victim(n=None, **kw):", "    vrec('bad', 'ok', n)"]
    elif e == "event_filter":
        bad += ["@event_trigger('bad_ev', \"int(s) > 0\")", "def victim(n=None, **kw):", "    vrec('bad', 'ok', n)"]
    elif e == "done_callback":
        bad += ["def cb(n):", "    vrec('bad', 'cb', n)", "    if n % 2 == 0:", f"        {exc_stmt}", "def cb2(n):", "    vrec('bad', 'cb2', n)", "@event_trigger('bad_ev')", "def victim(n=None, **kw):",
                "    task.add_done_callback(task.current_task(), cb, n)", "    task.add_done_callback(task.current_task(), cb2, n)", "    vrec('bad', 'ok', n)"]
    elif e == "task_create":
        bad += ["def worker(n):", "    vrec('bad', 'worker', n)", "    if n % 2 == 0:", f"        {exc_stmt}", "    return n", "@event_trigger('bad_ev')", "def victim(n=None, **kw):",
                "    t = task.create(worker, n)", "    task.wait({t})", "    vrec('bad', 'ok', n, t.result())"]
    elif e == "load_time":
        bad += ["vrec('bad', 'loading')", exc_stmt, "@event_trigger('bad_ev')", "def victim(n=None, **kw):", "    vrec('bad', 'ok', n)"]
    wrap = case.get("wrap")
    files_extra = {}
    if wrap and e in ("trigger_func", "time_trigger_func", "service", "done_callback", "task_create"):
        deco_src = ["def passthru(f):", "    def wrapper(*a, **k):", "        return f(*a, **k)", "    return wrapper", ""]
        if wrap == "module":
            files_extra["modules/guards.py"] = "\n".join(["calls = 'module'"] + deco_src) + "\n"
            bad = ["from guards import passthru"] + bad
        else:
            bad = deco_src + bad
        i = bad.index(next(x for x in bad if x.startswith("def victim(")))
        bad.insert(i, "@passthru")
    good = ["@event_trigger('good_ev')", "def good(n=None, **kw):", "    vrec('good', 'ok', n)", "@state_trigger('pyscript.v')", "def good_state(value=None, **kw):", "    vrec('good', 'state', str(value))"]
    return dict({"bad.py": "\n".join(bad) + "\n", "good.py": "\n".join(good) + "\n"}, **files_extra)


async def exec_containment(case):
    import logging

    files = containment_files(case)
    logging.disable(logging.NOTSET)  # vlib.l1 disables logging at import; this check observes log records
    async with l3.Integ(files, legacy=case["legacy"], initial_states={"pyscript.v": ("1", {})}) as it:
        from custom_components.pyscript.global_ctx import GlobalContextMgr

        per_logger = {}

        class H(logging.Handler):
            def emit(self, record):
                if record.levelno >= logging.ERROR:
                    try:
                        msg = record.getMessage()
                    except Exception:  # noqa: BLE001
                        msg = str(record.msg)
                    if record.exc_info and record.exc_info[1] is not None:
                        msg += " " + "".join(traceback.format_exception_only(record.exc_info[1]))
                    per_logger.setdefault(record.name, []).append(msg)

        h = H()
        plog = logging.getLogger("custom_components.pyscript")
        plog.addHandler(h)
        load_errors = [r for r in it.log.records if r[1] == "ERROR"]
        e = case["entry"]
        seq = case["seq"]
        for n in seq:
            if e in ("trigger_func", "done_callback", "task_create", "load_time"):
                it.fire("bad_ev", {"n": n})
            elif e == "service":
                if it.hass.services.has_service("pyscript", "victim"):
                    await it.hass.services.async_call("pyscript", "victim", {"n": n}, blocking=True)
            elif e == "state_trigger_expr":
                it.set_state("pyscript.v", "x" if n % 2 == 0 else str(n + 2))
            elif e == "state_active_expr":
                it.set_state("pyscript.v", "x" if n % 2 == 0 else str(n + 2))
                await it.settle(1)
                it.fire("bad_ev", {"n": n})
            elif e == "event_filter":
                it.fire("bad_ev", {"n": n, "s": "x" if n % 2 == 0 else "5"})
            elif e == "time_trigger_func":
                await it.sleep(2.0)
            await it.settle(2)
            it.fire("good_ev", {"n": n})
            await it.settle(1)
        plog.removeHandler(h)
        recs = [list(a) for vt, a, kw in it.records]
        loaded = sorted(c for c in GlobalContextMgr.contexts if c.startswith("file."))
        loop_exc = list(it.loop_exceptions)
        await it.unload()
    logging.disable(logging.CRITICAL)
    return {"recs": recs, "per_logger": per_logger, "loaded": loaded, "loop_exc": loop_exc, "load_errors": [x[2][-300:] for x in load_errors], "load_error_loggers": [x[0] for x in load_errors]}


def judge_containment(case, r):
    problems = []
    e = case["entry"]
    seq = case["seq"]
    faulty = [n for n in seq if n % 2 == 0]
    healthy = [n for n in seq if n % 2 == 1]
    good = [x for x in r["recs"] if x[0] == "good" and x[1] == "ok"]
    if [x[2] for x in good] != seq:
        problems.append("other-file-disturbed")
    if r["loop_exc"]:
        problems.append("propagated-to-loop-handler")
    exc_name = {"ValueError": "ValueError", "ZeroDivisionError": "ZeroDivisionError", "MyErr": "MyErr", "NameError": "NameError"}[case["exc"]]
    if e in ("state_trigger_expr", "state_active_expr", "event_filter"):
        exc_name = "ValueError"  # int('x')
    all_err = [(k, m) for k, ms in r["per_logger"].items() for m in ms]
    mine = [(k, m) for k, m in all_err if exc_name in m]
    if e == "load_time":
        if "file.bad" in r["loaded"]:
            problems.append("failed-file-still-loaded")
        if "file.good" not in r["loaded"]:
            problems.append("good-file-not-loaded")
        if any(x[0] == "bad" and x[1] == "ok" for x in r["recs"]):
            problems.append("unloaded-file-trigger-ran")
        if not any(exc_name in m for m in r["load_errors"]):
            problems.append("load-error-not-reported")
        return problems
    if e == "time_trigger_func":
        enters = [x for x in r["recs"] if x[0] == "bad" and x[1] == "enter"]
        oks = [x for x in r["recs"] if x[0] == "bad" and x[1] == "ok"]
        n_fault = sum(1 for x in enters if x[2] % 2 == 1)
        if len(enters) < len(seq) - 1:
            problems.append("trigger-stopped-serving")
        if len(mine) != n_fault:
            problems.append(f"reported-{len(mine)}-times-for-{n_fault}-faults")
    else:
        oks = [x[2] for x in r["recs"] if x[0] == "bad" and x[1] == "ok"]
        if e == "state_trigger_expr":
            # only an actual change of the value is an occurrence
            cur = "1"
            exp_ok, n_f = [], 0
            for n in seq:
                new = "x" if n % 2 == 0 else str(n + 2)
                if new != cur:
                    cur = new
                    if new == "x":
                        n_f += 1
                    else:
                        exp_ok.append(new)
            if oks != exp_ok:
                problems.append("later-occurrence-not-served" if len(oks) < len(exp_ok) else "unexpected-run")
            if len(mine) != n_f:
                problems.append(f"reported-{len(mine)}-times-for-{n_f}-faults")
            oks = exp_ok = None
        if oks is None:
            pass
        elif e in ("done_callback", "task_create"):
            exp_ok = seq if e == "done_callback" else seq
        else:
            exp_ok = healthy
        if e == "task_create":
            exp_ok = seq  # the creator continues; the worker's failure is contained in its own task
        if oks is not None and oks != exp_ok:
            problems.append("later-occurrence-not-served" if len(oks) < len(exp_ok) else "unexpected-run")
        if oks is not None and len(mine) != len(faulty):
            problems.append(f"reported-{len(mine)}-times-for-{len(faulty)}-faults")
        if e == "done_callback":
            cb2 = [x[2] for x in r["recs"] if x[0] == "bad" and x[1] == "cb2"]
            if cb2 != seq:
                problems.append("other-callback-skipped")
    # reported on that script's logger (custom_components.pyscript.file.bad...)
    for k, m in mine:
        if ".file.bad" not in k:
            problems.append("reported-on-wrong-logger:" + k.replace("custom_components.pyscript", ""))
            break
    if e in ("trigger_func", "service", "done_callback", "task_create", "time_trigger_func") and mine:
        if not any("contained-boom" in m or case["exc"] in ("ZeroDivisionError", "NameError") for k, m in mine):
            problems.append("message-missing")
        if not any('bad.py", line' in m for k, m in mine):
            problems.append("no-script-frame-in-report")
    return sorted(set(problems))


class C18(ModelCheck):
    prop = PROP
    level = "fault_enumeration"
    rule = (
        "(A) attribution: generated programs with a call chain of depth 1-5 across plain functions, methods, "
        "comprehensions, multi-line expressions and an optional user-written decorator, with one fault (10 kinds: builtin "
        "exceptions, a user class, raise-from, assert) at the innermost position; CPython runs the same source and the "
        "(function, line) pairs of its traceback must equal those parsed from pyscript's formatted traceback (module "
        "frame by line only), as must the exception type and message. (B) containment: a faulty file and a healthy file "
        "are loaded; the fault sits in one of 9 entry points (trigger function, time-trigger function, service, "
        "state_trigger expression, state_active expression, event filter, done-callback, task.create worker, load "
        "time) and fires on a generated sub-sequence of occurrences; every fault must be reported exactly once on the "
        "faulty script's logger with type, message and a script frame, never reach the loop's exception handler, never "
        "stop later occurrences, never disturb the healthy file; a load-time fault leaves exactly that file unloaded. "
        "Non-trivial = fault at depth >= 2 or in a non-function entry point; distinct by case content."
    )
    assumptions = ["column markers and the <module> label are presentation and not compared", "CPython's traceback of the same sources is the reference for (file, function, line) and for the chain of causes / contexts"]

    def n_random(self, tier):
        return {"quick": 4000, "thorough": 120000}[tier]

    def gen(self, R):
        if R.bool(1, 8):
            seq = [R.int(0, 9) for _ in range(R.int(2, 6))]
            return {"part": "B", "entry": R.choice(ENTRIES), "exc": R.choice(["ValueError", "ZeroDivisionError", "MyErr", "NameError"]), "legacy": R.bool(), "seq": seq,
                    # the victim may be wrapped by an ordinary user-written decorator (defined in the file or imported from a module)
                    "wrap": R.choice([None, None, "local", "module"])}
        src, meta = gen_program(R)
        return {"part": "A", "src": src, "meta": meta}

    def run_shard(self, tier, shard_i, shard_n):
        return asyncio.run(self._shard(tier, shard_i, shard_n))

    async def _shard(self, tier, shard_i, shard_n):
        res = core.ShardResult()
        n = self.n_random(tier) // shard_n
        pending = []
        core.run_hypothesis(lambda R: pending.append(self.gen(R)), n, core.seed() * 100003 + shard_i * 1009)
        a_cases = [c for c in pending if c["part"] == "A"]
        b_cases = [c for c in pending if c["part"] == "B"]
        if shard_i == 0:
            a_cases = [c for c in self.regress_cases() if c["part"] == "A"] + a_cases
            b_cases = [c for c in self.regress_cases() if c["part"] == "B"] + b_cases
        async with l1.bare_hass():
            for c in a_cases:
                if res.counters.get("mismatch_total", 0) >= 100:
                    break
                r = await self.run_a(c)
                self.record(res, c, r)
        self._b = b_cases
        return res, b_cases

    def regress_cases(self):
        return self.fixed_regress()

    def record(self, res, c, r):
        res.case(c if c["part"] == "B" else c["src"], r["nontrivial"])
        for k in r["classes"]:
            res.klass(k)
        if r["expected"] == r["observed"]:
            return
        fid = self.attribute(c, r)
        if fid:
            res.known(fid)
            return
        res.mismatch(self.bucket(c, r), c, expected=r["expected"], observed=r["observed"], detail=r.get("detail"))

    async def run_a(self, c):
        use_mod = bool(c["meta"].get("mod"))
        exp = cpython_report(c["src"], use_mod)
        obs, text = await pyscript_report(c["src"], use_mod)
        classes = ["attribution", "fault-" + c["meta"]["fault"]]
        if use_mod and any(f[0] == MOD_FNAME for prt in exp["chain"] for f in prt["frames"]):
            classes.append("module-frames")
        if len(exp["chain"]) > 1:
            classes.append("chained")
        if c["meta"].get("recurse"):
            classes.append("recursion")
        return {"expected": exp, "observed": obs, "nontrivial": c["meta"]["depth"] >= 2, "classes": classes, "detail": {"formatted": text[-1800:]}}

    def run(self, case):
        if case["part"] == "A":
            async def go():
                async with l1.bare_hass():
                    return await self.run_a(case)

            return asyncio.run(go())
        r = l3.run_case(exec_containment, case)
        problems = judge_containment(case, r)
        return {"expected": [], "observed": problems, "nontrivial": case["entry"] not in ("trigger_func", "service"), "classes": ["containment", "entry-" + case["entry"], "legacy" if case["legacy"] else "new"],
                "detail": {"per_logger": {k: [m[-300:] for m in v][:3] for k, v in r["per_logger"].items()}, "recs": r["recs"][:30], "load_errors": r["load_errors"][:2]}}

    def bucket(self, case, r):
        if case["part"] == "A":
            e, o = r["expected"], r["observed"]
            if e["type"] != o["type"]:
                what = "type"
            elif e["message"] != o["message"]:
                what = "message"
            elif [(x["type"], x["link"]) for x in e["chain"]] != [(x["type"], x["link"]) for x in o["chain"]]:
                what = "chain"
            elif [[f[0] for f in x["frames"]] for x in e["chain"]] != [[f[0] for f in x["frames"]] for x in o["chain"]]:
                what = "frame-files"
            else:
                what = "frames"
            return "attribution|" + what + ("|deco" if case["meta"]["deco"] else "") + ("|recurse" if case["meta"].get("recurse") else "")
        return "containment|" + case["entry"] + "|" + ("legacy" if case["legacy"] else "new") + "|" + ",".join(r["observed"])

    def attribute(self, case, r):
        """Known deviations, each recognised by the exact transformation of CPython's report that yields the observed one."""
        if case["part"] != "A":
            return None
        ids = {f["id"] for f in core.open_findings(PROP)}
        e, o = r["expected"], r["observed"]
        if e["type"] != o["type"] or e["message"] != o["message"] or len(e["chain"]) != len(o["chain"]):
            return None
        if [(x["type"], x["link"]) for x in e["chain"]] != [(x["type"], x["link"]) for x in o["chain"]]:
            return None
        used = set()

        def transform(frames, first_part):
            fr = [list(f) for f in frames]
            if "C18-decorator-wrapper-frame-named-after-decorated-function" in ids and case["meta"]["deco"] and any(f[1] == "wrapper" for f in fr):
                # the wrapper is reported under the name it is bound to (the decorated function f1)
                fr = [[f[0], "f1", f[2]] if f[1] == "wrapper" else f for f in fr]
                used.add("C18-decorator-wrapper-frame-named-after-decorated-function")
            if first_part and "C18-chained-part-frame-labelled-with-context" in ids and fr and fr[0][0] == FNAME and fr[0][1] != "<module>":
                fr[0][1] = "<module>"
                used.add("C18-chained-part-frame-labelled-with-context")
            return fr

        n = len(e["chain"])
        for k in range(n):
            if transform(e["chain"][k]["frames"], k < n - 1) != o["chain"][k]["frames"]:
                return None
        for fid in ("C18-chained-part-frame-labelled-with-context", "C18-decorator-wrapper-frame-named-after-decorated-function"):
            if fid in used:
                return fid
        return None


CHECK = C18()


def run_shard(tier, i, n):
    res, b_cases = CHECK.run_shard(tier, i, n)
    for c in b_cases:
        if res.counters.get("mismatch_total", 0) >= 100:
            break
        try:
            r = CHECK.run(c)
        except Exception:  # noqa: BLE001 - harness error, never a verdict
            res.count("harness_exception")
            res.errors.append("containment harness exception: " + traceback.format_exc()[-1200:])
            continue
        CHECK.record(res, c, r)
    return res


def replay(path):
    return CHECK.replay(path)


def main(tier):
    return CHECK.main(tier)
