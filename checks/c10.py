"""C10 - reload loads exactly what the files and configuration now dictate (operation sequences vs model)."""

from __future__ import annotations

import json
import os

from vlib import core, l3
from vlib.modelcheck import ModelCheck

PROP = "C10"

# path -> (context name, autoload?, kind)
FILES = {
    "a.py": ("file.a", True, "script"),
    "b.py": ("file.b", True, "script"),
    "scripts/s1.py": ("scripts.s1", True, "script"),
    "scripts/sub/s2.py": ("scripts.sub.s2", True, "script"),
    "apps/app12.py": ("apps.app12", True, "app2"),  # single-file app, always configured; its name has the app package's name as a prefix
    "apps/app1/__init__.py": ("apps.app1", True, "app"),
    "apps/app1/helper.py": ("apps.app1.helper", False, "appmod"),
    "modules/m1.py": ("modules.m1", False, "module"),
    "modules/m12.py": ("modules.m12", False, "module"),  # name has m1 as a prefix
    "modules/m3.py": ("modules.m3", False, "module"),  # leaf below the join of the diamond a -> m1 / m12 -> pkg -> m3
    "modules/pkg/__init__.py": ("modules.pkg", False, "module"),
    "modules/pkg/sub.py": ("modules.pkg.sub", False, "module"),
}
CTX2PATH = {v[0]: k for k, v in FILES.items()}
# possible import statements per file: (statement text, imported context names)
IMPORTS = {
    "a.py": [("import m1", ["modules.m1"]), ("import pkg", ["modules.pkg"]), ("from m1 import mval", ["modules.m1"]), ("import m12", ["modules.m12"]),
             # a sub-module of the package imported directly, without importing the package itself
             ("from pkg.sub import mval as subval", ["modules.pkg.sub"])],
    "b.py": [("import pkg", ["modules.pkg"]), ("import m1", ["modules.m1"]), ("import m12", ["modules.m12"]), ("import pkg.sub as psub", ["modules.pkg.sub"])],
    "scripts/s1.py": [("import m1", ["modules.m1"])],
    "scripts/sub/s2.py": [("import m1", ["modules.m1"])],
    "apps/app12.py": [("import m1", ["modules.m1"]), ("import pkg", ["modules.pkg"])],
    "apps/app1/__init__.py": [("from . import helper", ["apps.app1.helper"]), ("import m1", ["modules.m1"])],
    "apps/app1/helper.py": [("import pkg", ["modules.pkg"])],
    "modules/m1.py": [("import pkg", ["modules.pkg"])],
    "modules/m12.py": [("import pkg", ["modules.pkg"]), ("import m3", ["modules.m3"])],
    "modules/m3.py": [],
    "modules/pkg/__init__.py": [("from . import sub", ["modules.pkg.sub"]), ("import m3", ["modules.m3"])],
    "modules/pkg/sub.py": [("import m1", ["modules.m1"])],
}


def cyclic(files_imports):
    """True if the import statements chosen for the files (path -> list of option indices) form a cycle.  Import cycles
    are outside the property (Python itself only half-supports them and pyscript recurses without end)."""
    graph = {}
    for path, idxs in files_imports.items():
        graph[FILES[path][0]] = {t for i in idxs for t in IMPORTS[path][i][1]}
    state = {}

    def visit(n):
        if state.get(n) == 1:
            return True
        if state.get(n) == 2:
            return False
        state[n] = 1
        for m_ in graph.get(n, ()):
            if visit(m_):
                return True
        state[n] = 2
        return False

    return any(visit(n) for n in list(graph))


def no_cycle(path, imports, files_imports):
    """The generated import options of `path`, or none if they would close an import cycle."""
    trial = dict(files_imports)
    trial[path] = imports
    return [] if cyclic(trial) else imports


def source(path, gen, imports, broken=False):
    if broken:
        # a file that does not parse: it cannot be loaded, and neither can anything that imports it
        return f"GEN = {gen}\nthis is not python(\n"
    L = [f"GEN = {gen}", "mval = GEN", "counter = 0"]
    for i in imports:
        L.append(IMPORTS[path][i][0])
    L += [
        "vrec('loaded', pyscript.get_global_ctx(), GEN)",
        "@event_trigger('probe')",
        "def probe(**kw):",
        "    vrec('alive', pyscript.get_global_ctx(), GEN, counter)",
        "@event_trigger('bump')",
        "def bump(**kw):",
        "    global counter",
        "    counter += 1",
    ]
    return "\n".join(L) + "\n"


def root_of(ctx):
    parts = ctx.split(".")
    if parts[0] in ("apps", "modules"):
        return ".".join(parts[:2])
    return ctx


class Model:
    def __init__(self, variant_helper_ignores_config=False):
        self.variant = variant_helper_ignores_config
        self.files = {}  # path -> {"gen", "mtime", "imports": [idx], "commented": bool}
        self.app_conf = None  # None or dict
        self.loaded = {}  # ctx -> {"gen", "mtime", "conf", "imports": set(ctx names)}
        self.counters = {}

    def visible(self, path):
        f = self.files.get(path)
        return f is not None and not f["commented"]

    def autoload_ctxs(self):
        out = {}
        for path, (ctx, auto, kind) in FILES.items():
            if not self.visible(path):
                continue
            if kind in ("app", "appmod") and self.app_conf is None:
                continue
            out[ctx] = path
        return out

    def transitive_imports(self, ctx, seen=None):
        seen = set() if seen is None else seen
        for i in self.loaded.get(ctx, {}).get("imports", ()):  # as recorded when the context was loaded
            if i not in seen:
                seen.add(i)
                self.transitive_imports(i, seen)
        return seen

    def load(self, ctx, executed):
        """Execute the file of ctx (it exists): imports pull in modules that are not loaded yet."""
        path = CTX2PATH[ctx]
        f = self.files[path]
        if f.get("broken"):
            return False  # syntax error: nothing of the file runs
        imps = set()
        # the context object exists only after its body ran; imports happen during the body
        for i in f["imports"]:
            for target in IMPORTS[path][i][1]:
                tpath = CTX2PATH[target]
                if target not in self.loaded:
                    if not self.visible(tpath):
                        return False  # import error: this file fails to load
                    if not self.load(target, executed):
                        return False
                imps.add(target)
        conf = self.app_conf if ctx.startswith("apps.") and ctx == "apps.app1" else None
        self.loaded[ctx] = {"gen": f["gen"], "mtime": f["mtime"], "conf": conf, "imports": imps}
        self.counters[ctx] = 0
        executed.append(ctx)
        return True

    def reload(self, which):
        files = self.autoload_ctxs()
        present = {}  # ctx -> path for every visible file (apps need config)
        for path, (ctx, auto, kind) in FILES.items():
            needs_conf = kind == "app" or (kind == "appmod" and not self.variant)
            if self.visible(path) and not (needs_conf and self.app_conf is None):
                present[ctx] = path
        changed = set()
        force = set()
        if which is not None and which != "*":
            # a name is known if a context of that name is loaded or a file for it exists (an app's files count
            # also while the app is not configured: they are only not loaded automatically)
            exists = {ctx for path, (ctx, auto, kind) in FILES.items() if self.visible(path)}
            if which not in self.loaded and which not in exists:
                return []  # error logged, nothing happens
            changed.add(which)
            if which in present:
                force.add(which)
        elif which == "*":
            changed = set(self.loaded)
            force = set(present)
        else:
            for ctx in self.loaded:
                if ctx not in present:
                    changed.add(ctx)
            for ctx, path in present.items():
                f = self.files[path]
                if ctx in self.loaded:
                    cur = self.loaded[ctx]
                    conf = self.app_conf if ctx == "apps.app1" else None
                    if cur["gen"] != f["gen"] or cur["mtime"] != f["mtime"] or cur["conf"] != conf:
                        changed.add(ctx)
                        force.add(ctx)
                elif FILES[path][1]:
                    force.add(ctx)
        # modules being reloaded pull in everything that imports them (directly or transitively)
        mod_roots = {root_of(c) for c in (changed | force) if c.startswith("modules.")}  # a deleted module is a changed module
        if mod_roots:
            for ctx in list(self.loaded):
                if any(root_of(i) in mod_roots for i in self.transitive_imports(ctx)):
                    changed.add(ctx)
                    if ctx in present:
                        force.add(ctx)
        # any change inside an app or module package reloads the whole package
        for ctx in list(force | changed):
            if ctx.startswith(("apps.", "modules.")):
                r = root_of(ctx)
                for c2 in set(self.loaded) | set(present):
                    if c2 == r or c2.startswith(r + "."):
                        changed.add(c2)
                        force.discard(c2)
                if r in present:
                    force.add(r)
        for ctx in changed:
            self.loaded.pop(ctx, None)
            self.counters.pop(ctx, None)
        executed = []
        for ctx in sorted(force):
            path = present.get(ctx)
            if path is None or not FILES[path][1]:
                continue
            if ctx in self.loaded:
                continue
            self.load(ctx, executed)
        return executed


def gen(R):
    paths = list(FILES)
    initial = {}
    g = 0
    cur_imports = {}
    for p in paths:
        if R.bool(2, 3):
            g += 1
            imps = no_cycle(p, [i for i in range(len(IMPORTS[p])) if R.bool(1, 2)], cur_imports)
            cur_imports[p] = imps
            initial[p] = {"gen": g, "imports": imps}
    app_conf = R.choice([None, {"x": 1}, {"x": 1}])
    ops = []
    if R.bool(1, 5):
        # structured start: a chain script -> package -> (relative) sibling -> leaf module, or a diamond below two scripts;
        # the leaf is edited and a default reload requested first, the generated steps follow
        chain = R.choice(["pkg-chain", "diamond"])
        if chain == "pkg-chain":
            forced = {"a.py": [1], "modules/pkg/__init__.py": [0], "modules/pkg/sub.py": [0], "modules/m1.py": []}
            leaf = "modules/m1.py"
        else:
            forced = {"a.py": [0, 3], "b.py": [2], "modules/m1.py": [0], "modules/m12.py": [0], "modules/pkg/__init__.py": [1], "modules/m3.py": []}
            leaf = "modules/m3.py"
        for fp, imps in forced.items():
            g += 1
            initial[fp] = {"gen": g, "imports": imps}
            cur_imports[fp] = imps
        if cyclic(cur_imports):
            for fp in list(initial):
                if fp not in forced:
                    del initial[fp]
                    cur_imports.pop(fp, None)
        g += 1
        ops.append({"op": "modify", "path": leaf, "gen": g, "imports": [], "broken": False})
        ops.append({"op": "reload", "which": None})
    exists = set(initial)  # create only takes effect for a missing file, modify only for an existing one
    for _ in range(R.int(2, 10)):
        k = R.weighted([(4, "modify"), (2, "touch"), (2, "create"), (2, "delete"), (1, "comment"), (1, "uncomment"), (3, "appconf"), (6, "reload"), (2, "bump"), (1, "reload_overlap"), (1, "break_named")])
        p = R.choice(paths)
        if k == "break_named":
            # a loaded script is edited into a syntax error and reloaded by its own name: the old context must go
            p = R.choice(["a.py", "b.py", "scripts/s1.py", "scripts/sub/s2.py"])
            g += 1
            ops.append({"op": "modify", "path": p, "gen": g, "imports": [], "broken": True})
            ops.append({"op": "reload", "which": FILES[p][0]})
            if p in exists:
                cur_imports[p] = []
            continue
        if k == "reload_overlap":
            # a reload is requested and, while it is still running, a file is edited and a second reload is requested
            g += 1
            imps = no_cycle(p, [i for i in range(len(IMPORTS[p])) if R.bool(1, 2)], cur_imports)
            cur_imports[p] = imps
            exists.add(p)
            ops.append({"op": "reload_overlap", "path": p, "gen": g, "imports": imps, "yields": R.choice([0, 1, 3, 10, 40])})
        elif k in ("modify", "create"):
            g += 1
            imps = no_cycle(p, [i for i in range(len(IMPORTS[p])) if R.bool(1, 2)], cur_imports)
            if (k == "create") != (p in exists):
                cur_imports[p] = imps
                exists.add(p)
            ops.append({"op": k, "path": p, "gen": g, "imports": imps, "broken": R.bool(1, 6)})
        elif k in ("touch", "delete", "comment", "uncomment"):
            if k == "delete":
                exists.discard(p)
                cur_imports.pop(p, None)
            ops.append({"op": k, "path": p})
        elif k == "appconf":
            ops.append({"op": "appconf", "conf": R.choice([None, {"x": 1}, {"x": 2}])})
        elif k == "reload":
            ops.append({"op": "reload", "which": R.weighted([(6, None), (1, "*"), (1, "file.a"), (1, "modules.m1"), (1, "apps.app1"), (1, "modules.pkg"), (1, "apps.app12"), (1, "scripts.sub.s2"), (1, "modules.m3"), (1, "modules.m12")])})
        else:
            ops.append({"op": "bump"})
    ops.append({"op": "reload", "which": None})
    ops.append({"op": "reload", "which": None})
    return {"legacy": R.bool(1, 3), "initial": initial, "app_conf": app_conf, "ops": ops}


async def execute(case, variant=False):
    from custom_components.pyscript.global_ctx import GlobalContextMgr

    m = Model(variant_helper_ignores_config=variant)
    m.app_conf = case["app_conf"]
    clock = [1_700_000_000]

    def tick():
        clock[0] += 10
        return clock[0]

    files = {}
    for p, f in case["initial"].items():
        files[p] = source(p, f["gen"], f["imports"])
    cfg = {"apps": dict({"app12": {}}, **({"app1": case["app_conf"]} if case["app_conf"] is not None else {}))}
    it = l3.Integ({}, legacy=case["legacy"], config_extra=cfg)
    # write initial files with explicit mtimes before set-up
    orig_write = it.write_files

    def write_with_mtime(fs=None):
        orig_write(files)
        for p in files:
            t = tick()
            os.utime(os.path.join(it.dir, "pyscript", p), (t, t))
            m.files[p] = {"gen": case["initial"][p]["gen"], "mtime": t, "imports": case["initial"][p]["imports"], "commented": False}

    it.write_files = write_with_mtime
    async with it:
        root = os.path.join(it.dir, "pyscript")
        n0 = 0
        trace = []
        # initial load == a reload from nothing
        exp_exec = m.reload(None)
        problems = None

        def fpath(p, commented=False):
            d, b = os.path.split(p)
            return os.path.join(root, d, ("#" if commented else "") + b)

        async def observe(label, exp_executed, n_from, check_executed=True):
            loaded_obs = sorted(r[1][1] for r in it.records[n_from:] if r[1][0] == "loaded")
            if not check_executed:
                exp_executed = loaded_obs
            nprobe = len(it.records)
            it.fire("probe", {})
            await it.settle(1)
            alive = sorted([list(r[1][1:]) for r in it.records[nprobe:] if r[1][0] == "alive"])
            ctxs = sorted(c for c in GlobalContextMgr.contexts if c.split(".")[0] in ("file", "apps", "modules", "scripts"))
            exp_alive = sorted([[c, v["gen"], m.counters.get(c, 0)] for c, v in m.loaded.items()])
            exp_ctxs = sorted(m.loaded)
            step = {"label": label, "executed_exp": sorted(exp_executed), "executed_obs": loaded_obs, "alive_exp": exp_alive, "alive_obs": alive, "ctx_exp": exp_ctxs, "ctx_obs": ctxs}
            trace.append(step)
            return step["executed_exp"] == step["executed_obs"] and exp_alive == alive and exp_ctxs == ctxs

        ok = await observe("initial", exp_exec, 0)
        for i, op in enumerate(case["ops"]):
            if not ok:
                break
            k = op["op"]
            if k in ("modify", "create"):
                p = op["path"]
                if k == "create" and p in m.files:
                    continue
                if k == "modify" and p not in m.files:
                    continue
                commented = m.files[p]["commented"] if p in m.files else False
                os.makedirs(os.path.dirname(fpath(p)), exist_ok=True)
                with open(fpath(p, commented), "w") as fh:
                    fh.write(source(p, op["gen"], op["imports"], op.get("broken", False)))
                t = tick()
                os.utime(fpath(p, commented), (t, t))
                m.files[p] = {"gen": op["gen"], "mtime": t, "imports": op["imports"], "commented": commented, "broken": op.get("broken", False)}
            elif k == "touch":
                p = op["path"]
                if p in m.files:
                    t = tick()
                    os.utime(fpath(p, m.files[p]["commented"]), (t, t))
                    m.files[p]["mtime"] = t
            elif k == "delete":
                p = op["path"]
                if p in m.files:
                    os.unlink(fpath(p, m.files[p]["commented"]))
                    del m.files[p]
            elif k in ("comment", "uncomment"):
                p = op["path"]
                if p in m.files and m.files[p]["commented"] != (k == "comment"):
                    os.rename(fpath(p, m.files[p]["commented"]), fpath(p, k == "comment"))
                    m.files[p]["commented"] = k == "comment"
            elif k == "appconf":
                m.app_conf = op["conf"]
                it.config["pyscript"]["apps"] = dict({"app12": {}}, **({"app1": op["conf"]} if op["conf"] is not None else {}))
            elif k == "bump":
                it.fire("bump", {})
                await it.settle(1)
                for c in m.loaded:
                    m.counters[c] = m.counters.get(c, 0) + 1
            elif k == "reload_overlap":
                import asyncio
                import copy

                p = op["path"]
                n_from = len(it.records)
                # the harness owns the schedule: the first reload is held where it is about to load its first file (it
                # has decided what to reload from the files as they were); then the file is edited, the second reload
                # is requested (it has to wait for the first) and the first is released
                gate = {"armed": True, "go": asyncio.Event(), "reached": asyncio.Event()}
                orig_load_file = GlobalContextMgr.load_file.__func__

                async def gated_load_file(cls, *a, **kw):
                    if gate["armed"]:
                        gate["armed"] = False
                        gate["reached"].set()
                        await gate["go"].wait()
                    return await orig_load_file(cls, *a, **kw)

                GlobalContextMgr.load_file = classmethod(gated_load_file)
                try:
                    t1 = asyncio.ensure_future(it.hass.services.async_call("pyscript", "reload", {}, blocking=True))
                    tr = asyncio.ensure_future(gate["reached"].wait())
                    await asyncio.wait([t1, tr], return_when=asyncio.FIRST_COMPLETED)
                    tr.cancel()
                    commented = m.files[p]["commented"] if p in m.files else False
                    os.makedirs(os.path.dirname(fpath(p)), exist_ok=True)
                    with open(fpath(p, commented), "w") as fh:
                        fh.write(source(p, op["gen"], op["imports"]))
                    t = tick()
                    os.utime(fpath(p, commented), (t, t))
                    t2 = asyncio.ensure_future(it.hass.services.async_call("pyscript", "reload", {}, blocking=True))
                    for _ in range(op["yields"]):
                        await asyncio.sleep(0)
                    gate["armed"] = False
                    gate["go"].set()
                    await asyncio.gather(t1, t2)
                finally:
                    GlobalContextMgr.load_file = classmethod(orig_load_file)
                await it.settle()
                # the first reload either worked on the files as they were before the edit (A) or already read the edited
                # file (B); both are correct, the state after both reloads must be one of the two
                m_a, m_b = m, copy.deepcopy(m)
                m_a.reload(None)
                for mm in (m_a, m_b):
                    mm.files[p] = {"gen": op["gen"], "mtime": t, "imports": op["imports"], "commented": commented}
                m_a.reload(None)
                m_b.reload(None)
                m = m_b
                ok = await observe(f"op{i}:reload_overlap", [], n_from, check_executed=False)
                if not ok:
                    trace.pop()
                    m = m_a
                    ok = await observe(f"op{i}:reload_overlap", [], n_from, check_executed=False)
            elif k == "reload":
                n_from = len(it.records)
                exp_exec = m.reload(op["which"])
                await it.reload(op["which"])
                ok = await observe(f"op{i}:reload({op['which']})", exp_exec, n_from)
        errs = [e[2][-200:] for e in it.errors()]
        await it.unload()
    return trace, errs


class C10(ModelCheck):
    prop = PROP

    def valid(self, case):
        """A reduced history must not contain an import cycle at any point (the generator never produces one)."""
        cur = {p: f["imports"] for p, f in case["initial"].items()}
        if cyclic(cur):
            return False
        for op in case["ops"]:
            if op["op"] == "reload_overlap":
                cur[op["path"]] = op["imports"]
                if cyclic(cur):
                    return False
            elif op["op"] in ("modify", "create") and (op["op"] == "create") != (op["path"] in cur):
                cur[op["path"]] = op["imports"]
                if cyclic(cur):
                    return False
            elif op["op"] == "delete":
                cur.pop(op["path"], None)
        return True
    rule = (
        "file trees over pyscript/a.py, b.py, scripts/s1.py, scripts/sub/s2.py, apps/app12.py (single-file app whose name has the app package's name as a prefix), modules m12 (prefix m1) and m3 (leaf below a diamond), apps/app1/__init__.py + helper.py, modules/m1.py, "
        "modules/pkg/__init__.py + sub.py (each present or not) with generated import edges (import m, from m import x, "
        "relative import inside packages; modules importing modules) and optional app configuration, followed by 2-10 "
        "steps of modify (one in six edits leaves a file that does not parse) / touch (mtime only) / create / delete / rename with '#' / add-remove-change app config / fire a "
        "'bump' event that changes a counter in every loaded context / reload(None | name | '*') / an edit made while a reload is still running, followed by a second reload request (only the state after both is compared), ending with two plain "
        "reloads. Every file's preamble records (context, generation) when executed. Oracle: a model of the documented "
        "reload rules gives, after every reload, (a) which contexts were executed, (b) the set of loaded contexts with "
        "their generation and (c) their counter (untouched contexts keep it); observed through the load records, "
        "pyscript's context list and a 'probe' event answered by every loaded context. The last reload (no edits) must "
        "execute nothing. Non-trivial = a tree with an import edge and a reload after an edit that is not a full reload; "
        "distinct by case content."
    )
    assumptions = ["the file watcher is not exercised (reload is requested explicitly)", "a module that nobody imports any more but whose file is unchanged stays loaded (documented: other contexts are left untouched)"]

    def n_random(self, tier):
        return {"quick": 1280, "thorough": 24000}[tier]

    def gen(self, R):
        return gen(R)

    def regress_cases(self):
        return self.fixed_regress()

    def run(self, case):
        case = json.loads(json.dumps(case))
        def first_bad(trace):
            for s in trace:
                if s["executed_exp"] != s["executed_obs"] or s["alive_exp"] != s["alive_obs"] or s["ctx_exp"] != s["ctx_obs"]:
                    return s
            return None

        trace, errs = l3.run_case(execute, case)
        bad = first_bad(trace)
        variant_ok = False
        if bad is not None and "apps/app1/helper.py" in (set(case["initial"]) | {o.get("path") for o in case["ops"]}):
            vtrace, _ = l3.run_case(execute, case, True)
            variant_ok = first_bad(vtrace) is None
        has_edge = any(f["imports"] for f in case["initial"].values()) or any(o.get("imports") for o in case["ops"])
        partial = any(o["op"] == "reload" and o["which"] != "*" for o in case["ops"][:-2]) and any(o["op"] in ("modify", "touch", "delete", "create", "comment") for o in case["ops"])
        return {"expected": None, "observed": bad, "variant_ok": variant_ok, "nontrivial": bool(has_edge and partial), "classes": ["legacy" if case["legacy"] else "new"],
                "detail": {"errors": errs[:3]}}

    def bucket(self, case, r):
        s = r["observed"]
        what = "executed" if s["executed_exp"] != s["executed_obs"] else "contexts" if s["ctx_exp"] != s["ctx_obs"] else "state"
        return what + "|" + s["label"].split(":")[-1].split("(")[0]

    def attribute(self, case, r):
        for f in core.open_findings(PROP):
            fn = ATTRIBUTORS.get(f["id"])
            if fn and fn(case, r):
                return f["id"]
        return None


ATTRIBUTORS = {"C10-app-helper-survives-config-removal": lambda case, r: bool(r.get("variant_ok"))}
CHECK = C10()


def run_shard(tier, i, n):
    return CHECK.run_shard(tier, i, n)


def replay(path):
    return CHECK.replay(path)


def main(tier):
    return CHECK.main(tier)
