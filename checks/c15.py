"""C15 - task.wait_until returns for the first qualifying trigger and always cleans up (virtual clock)."""

from __future__ import annotations

import json

from vlib import core, l3
from vlib.modelcheck import ModelCheck

PROP = "C15"
T_CALL = 5.25
TRUE_VALS = ("1", "2")


def gen(R):
    conds = R.choice([["state"], ["event"], ["time"], ["state", "event"], ["state", "time"], ["event", "time"], ["state", "event", "time"], []])
    conds = list(conds)
    if R.bool(1, 4):
        conds.append("mqtt")
    if R.bool(1, 4):
        conds.append("webhook")
    cfg = {
        "conds": conds,
        "mqtt_filter": R.bool(1, 2),
        "timeout": R.choice([None, None, 0, 12.1]),
        "check_now": R.choice([None, None, False, True]),
        "event_filter": R.bool(1, 2),
        "time_past": R.bool(1, 4),
        "bad_expr": R.bool(1, 8),
        "initial": R.choice(["0", "0", "1"]),
        "legacy": R.bool(),
        # state_hold: the state condition occurs only after the expression stayed true for this long (deadlines fall on
        # x.3 / x.8 / 6.55, never on an operation, the time trigger, the time-out or a cancellation instant)
        "hold": R.choice([None, None, None, 1.3]),
    }
    ops = []
    t = 0.0
    for _ in range(R.int(1, 10)):
        t += R.choice([0.5, 1.0, 2.5, 4.0])
        k = R.weighted([(4, "set"), (3, "event"), (1, "other")] + ([(2, "mqtt")] if "mqtt" in conds else []) + ([(2, "hook")] if "webhook" in conds else []))
        if k == "mqtt":
            ops.append([t, "mqtt", R.choice(["go", "go", "stop"])])
        elif k == "hook":
            ops.append([t, "hook", R.choice(["hook1", "hook1", "hook2"])])
        elif k == "set":
            ops.append([t, "set", R.choice(["0", "1", "2", "x"])])
        elif k == "event":
            ops.append([t, "event", R.int(0, 3)])
        else:
            ops.append([t, "other", R.int(0, 3)])
    cancel_at = None
    if R.bool(1, 3):
        cancel_at = T_CALL + R.choice([0.1, 1.1, 3.3, 6.6, 9.9])
    return {"cfg": cfg, "ops": ops, "cancel_at": cancel_at}


def call_src(cfg):
    kw = []
    if "state" in cfg["conds"]:
        expr = "int(pyscript.v) in [1, 2]" if cfg["bad_expr"] else "pyscript.v in ['1', '2']"
        kw.append(f"state_trigger={expr!r}")
        if cfg["check_now"] is not None:
            kw.append(f"state_check_now={cfg['check_now']}")
        if cfg.get("hold") is not None:
            kw.append(f"state_hold={cfg['hold']}")
    if "event" in cfg["conds"]:
        kw.append("event_trigger=['ev1', 'n > 1']" if cfg["event_filter"] else "event_trigger='ev1'")
    if "time" in cfg["conds"]:
        kw.append("time_trigger='once(2020/01/01 00:00)'" if cfg["time_past"] else "time_trigger='once(now + 7s)'")
    if "mqtt" in cfg["conds"]:
        kw.append("mqtt_trigger=['home/a', \"payload == 'go'\"]" if cfg.get("mqtt_filter") else "mqtt_trigger='home/a'")
    if "webhook" in cfg["conds"]:
        kw.append("webhook_trigger='hook1'")
    if cfg["timeout"] is not None:
        kw.append(f"timeout={cfg['timeout']}")
    return ", ".join(kw)


def script(cfg):
    return (
        "@service\n"
        "def waiter(**kw):\n"
        "    vreg('w')\n"
        "    vrec('call')\n"
        "    try:\n"
        f"        r = task.wait_until({call_src(cfg)})\n"
        "    except Exception as e:\n"
        "        vrec('exc', type(e).__name__)\n"
        "        return\n"
        "    vrec('ret', {k: str(v) for k, v in r.items() if k not in ('context', 'trigger_time')})\n"
    )


def model(case):
    """(kind, time, payload): kind in ret / exc / cancelled / waiting."""
    cfg = case["cfg"]
    v = cfg["initial"]
    for t, op, arg in case["ops"]:
        if t + 0.0 < T_CALL and op == "set":
            v = arg
    conds = cfg["conds"]
    check_now = True if cfg["check_now"] is None else cfg["check_now"]
    cands = []  # (time, order, kind, payload)

    def truth(val):
        if cfg["bad_expr"]:
            return int(val) in (1, 2)  # raises ValueError for 'x'
        return val in TRUE_VALS

    if not conds:
        if cfg["timeout"] is not None:
            return ("ret", T_CALL + cfg["timeout"], {"trigger_type": "timeout"})
        return ("ret", T_CALL, {"trigger_type": "none"})
    hold = cfg.get("hold") if "state" in conds else None
    pending = None  # (deadline, payload of the first true evaluation) while a state_hold is running
    if "state" in conds and check_now:
        try:
            if truth(v):
                if hold is None:
                    return ("ret", T_CALL, {"trigger_type": "state"})
                pending = (T_CALL + hold, {"trigger_type": "state"})
        except ValueError:
            return ("exc", T_CALL, "ValueError")
    if cfg["timeout"] is not None:
        cands.append((T_CALL + cfg["timeout"], 9, "ret", {"trigger_type": "timeout"}))
    if "time" in conds:
        if not cfg["time_past"]:
            cands.append((T_CALL + 7.0, 5, "ret", {"trigger_type": "time"}))
        elif [c for c in conds if c != "time"] == [] and cfg["timeout"] is None:
            return ("ret", T_CALL, {"trigger_type": "none"})
    cur = v
    for t, op, arg in case["ops"]:
        if t <= T_CALL:
            continue
        if pending is not None and pending[0] <= t:
            break  # the hold completes before this operation
        if op == "set" and "state" in conds:
            if arg == cur:
                continue
            old, cur = cur, arg
            try:
                ok = truth(cur)
            except ValueError:
                cands.append((t, 1, "exc", "ValueError"))
                pending = None
                break
            if ok and hold is not None:
                if pending is None:
                    pending = (t + hold, {"trigger_type": "state", "var_name": "pyscript.v", "value": cur, "old_value": old})
            elif ok:
                cands.append((t, 1, "ret", {"trigger_type": "state", "var_name": "pyscript.v", "value": cur, "old_value": old}))
                break
            else:
                pending = None
        elif op == "set":
            cur = arg
        elif op == "event" and "event" in conds:
            if not cfg["event_filter"] or arg > 1:
                cands.append((t, 1, "ret", {"trigger_type": "event", "event_type": "ev1", "n": str(arg)}))
                break
        elif op == "mqtt" and "mqtt" in conds:
            if not cfg.get("mqtt_filter") or arg == "go":
                cands.append((t, 1, "ret", {"trigger_type": "mqtt", "topic": "home/a", "payload": arg, "qos": "0", "retain": "False"}))
                break
        elif op == "hook" and "webhook" in conds:
            if arg == "hook1":
                cands.append((t, 1, "ret", {"trigger_type": "webhook", "webhook_id": "hook1", "payload": str({"a": "b"})}))
                break
    if pending is not None:
        cands.append((pending[0], 1, "ret", pending[1]))
    if not cands:
        return ("waiting", None, None)
    cands.sort(key=lambda x: (x[0], x[1]))
    t, _, kind, payload = cands[0]
    return (kind, t, payload)


async def execute(case):
    import asyncio

    from custom_components.pyscript.event import Event
    from custom_components.pyscript.function import Function
    from custom_components.pyscript.state import State

    cfg = case["cfg"]
    from types import SimpleNamespace
    from unittest.mock import patch

    # Home Assistant's MQTT / webhook API boundary is replaced by recording fakes that hand messages to the registered handler
    subs, hooks = [], {}

    async def fake_subscribe(hass, topic, handler, qos=0, encoding="utf-8"):
        ent = (topic, handler)
        subs.append(ent)

        def unsub():
            if ent in subs:
                subs.remove(ent)

        return unsub

    def fake_register(hass, domain, name, webhook_id, handler, local_only=False, allowed_methods=None):
        if webhook_id in hooks:
            raise ValueError("Handler is already defined!")
        hooks[webhook_id] = handler

    def fake_unregister(hass, webhook_id):
        hooks.pop(webhook_id, None)

    class FakeRequest:
        headers = {"Content-Type": "application/json"}

        async def json(self):
            return {"a": "b"}

        async def post(self):
            return {"a": "b"}

    with patch("homeassistant.components.mqtt.async_subscribe", fake_subscribe), patch("homeassistant.components.webhook.async_register", fake_register), patch(
        "homeassistant.components.webhook.async_unregister", fake_unregister
    ):
        return await _execute(case, subs, hooks, SimpleNamespace, FakeRequest)


async def _execute(case, subs, hooks, SimpleNamespace, FakeRequest):
    import asyncio

    from custom_components.pyscript.event import Event
    from custom_components.pyscript.function import Function
    from custom_components.pyscript.state import State

    cfg = case["cfg"]
    async with l3.Integ({"hello.py": script(cfg)}, legacy=cfg["legacy"], initial_states={"pyscript.v": (cfg["initial"], {}), "pyscript.u": ("0", {})}) as it:
        task_of = {}
        Function.functions["vreg"] = lambda pid: task_of.__setitem__(pid, asyncio.current_task())
        t0 = it.vt()

        def resources():
            return {
                "notify_queues": {k: len(v) for k, v in State.notify.items() if v},
                "event_notify": {k: len(v) for k, v in Event.notify.items() if v},
                "bus_ev1": it.hass.bus.async_listeners().get("ev1", 0),
                "tasks": len([t for t in Function.our_tasks if not t.done()]),
                "mqtt_subscriptions": len(subs),
                "webhooks": len(hooks),
            }

        timeline = [(t, op, arg) for t, op, arg in case["ops"]] + [(T_CALL, "call", None)]
        if case["cancel_at"] is not None:
            timeline.append((case["cancel_at"], "cancel", None))
        timeline.sort(key=lambda x: (x[0], 0 if x[1] != "call" else 1))
        before = None
        u = 0
        for t, op, arg in timeline:
            await it.sleep_spin(t0 + t)
            if op == "set":
                it.set_state("pyscript.v", arg)
            elif op == "event":
                it.fire("ev1", {"n": arg})
            elif op == "mqtt":
                m = SimpleNamespace(topic="home/a", payload=arg, qos=0, retain=False)
                for tp, h in list(subs):
                    await h(m)
            elif op == "hook":
                h = hooks.get(arg)
                if h is not None:
                    await h(it.hass, arg, FakeRequest())
            elif op == "other":
                u += 1
                it.set_state("pyscript.u", str(u))
                it.fire("ev_other", {"n": arg})
            elif op == "call":
                before = resources()
                await it.hass.services.async_call("pyscript", "waiter", {}, blocking=False)
            elif op == "cancel":
                tk = task_of.get("w")
                if tk is not None and not tk.done():
                    await Function.user_task_cancel(tk)
            await it.spin()
        await it.sleep_spin(t0 + max(x[0] for x in timeline) + 20.0)
        recs = [(round(vt - t0, 3), a) for vt, a, kw in it.records]
        tk = task_of.get("w")
        state = "none" if tk is None else ("cancelled" if tk.cancelled() else "done" if tk.done() else "pending")
        if tk is not None and not tk.done():
            # still waiting (no qualifying trigger): end it so that the clean-up of the cancellation path is observed too
            await Function.user_task_cancel(tk)
            await it.spin()
            await it.sleep_spin(it.vt() + 0.5)
        await it.settle(1)
        after = resources()
        errs = [e[2][-400:] for e in it.errors()]
        await it.unload()
    return {"recs": recs, "task_state": state, "before": before, "after": after, "errors": errs}


class C15(ModelCheck):
    prop = PROP
    rule = (
        "every subset of {state, time, event} conditions, optionally plus an MQTT topic (with / without payload filter) and a webhook id (both through recording fakes of Home Assistant's API boundary), x timeout in {None, 0, 12.1} x state_check_now in {unset, "
        "False, True} x event filter x a time specification with / without a future instant x a state expression that "
        "can raise x initial truth x subsystem; timed histories of state changes, events and irrelevant changes before, "
        "during and after the call; optional cancellation of the waiting task at a generated instant (and always at "
        "the end if it is still waiting). Oracle: a model of 'first occurrence after the call' gives the returned "
        "dictionary (or exception type) and the virtual return time; the waiting task's State.notify queues, "
        "Event.notify entries, bus listeners, MQTT subscriptions, registered webhooks and pyscript tasks after it ended (by return, exception or cancellation) "
        "must equal those before the call. Non-trivial = >= 2 conditions, or a cancellation during the wait; distinct "
        "by case content."
    )
    assumptions = ["event/state times keep >= 0.1 s distance from the call instant, the timeout and time-trigger deadlines"]

    def n_random(self, tier):
        return {"quick": 2400, "thorough": 40000}[tier]

    def gen(self, R):
        return gen(R)

    def regress_cases(self):
        return self.fixed_regress()

    def run(self, case):
        case = json.loads(json.dumps(case))
        r = l3.run_case(execute, case)
        kind, t, payload = model(case)
        cancel_at = case["cancel_at"]
        if cancel_at is not None and (kind == "waiting" or t is None or cancel_at < t):
            exp = {"kind": "cancelled"}
        elif kind == "waiting":
            exp = {"kind": "waiting"}
        else:
            exp = {"kind": kind, "t": round(t, 2), "payload": payload}
        rets = [x for x in r["recs"] if x[1][0] in ("ret", "exc")]
        if rets:
            rel, a = rets[0]
            obs = {"kind": a[0], "t": round(rel, 2), "payload": a[1]}
        elif r["task_state"] == "cancelled":
            obs = {"kind": "cancelled"}
        else:
            obs = {"kind": "waiting" if r["task_state"] == "pending" else r["task_state"]}
        problems = []
        if exp["kind"] != obs["kind"]:
            problems.append("outcome")
        elif exp["kind"] in ("ret", "exc"):
            if exp["payload"] != obs["payload"]:
                problems.append("payload")
            if abs(exp["t"] - obs["t"]) > 0.02:
                problems.append("return-time")
        if r["before"] != r["after"]:
            problems.append("leak")
        if r["errors"]:
            problems.append("unexpected-error-logged")  # the script catches what wait_until raises; nothing may be logged
        return {"expected": {"outcome": exp, "resources": r["before"], "problems": []}, "observed": {"outcome": obs, "resources": r["after"], "problems": problems},
                "nontrivial": len(case["cfg"]["conds"]) >= 2 or cancel_at is not None,
                "classes": ["legacy" if case["cfg"]["legacy"] else "new", "exp-" + exp["kind"]] + ["cond-" + c for c in case["cfg"]["conds"]],
                "detail": {"call": call_src(case["cfg"]), "errors": r["errors"][:2]}}

    def mismatch(self, r):
        return bool(r["observed"]["problems"])

    def bucket(self, case, r):
        return ("legacy" if case["cfg"]["legacy"] else "new") + "|" + ",".join(r["observed"]["problems"]) + "|" + r["expected"]["outcome"]["kind"] + "->" + r["observed"]["outcome"]["kind"]

    def attribute(self, case, r):
        for f in core.open_findings(PROP):
            fn = ATTRIBUTORS.get(f["id"])
            if fn and fn(case, r):
                return f["id"]
        return None


ATTRIBUTORS = {}
CHECK = C15()


def run_shard(tier, i, n):
    return CHECK.run_shard(tier, i, n)


def replay(path):
    return CHECK.replay(path)


def main(tier):
    return CHECK.main(tier)
