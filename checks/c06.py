"""C06 - time triggers denote exact instants: successor function (L2) and run loop (L3, virtual clock)."""

from __future__ import annotations

import asyncio
import datetime as dt
import json
import math
import zoneinfo

from vlib import core, l1, l3
from vlib.modelcheck import ModelCheck

PROP = "C06"
US = dt.timedelta(microseconds=1)
DAY = dt.timedelta(days=1)
TZ = "US/Pacific"

UNIT_S = {"s": 1, "sec": 1, "seconds": 1, "": 1, "m": 60, "min": 60, "minutes": 60, "h": 3600, "hr": 3600, "hour": 3600, "hours": 3600, "mins": 60, "minute": 60, "second": 1, "weeks": 604800, "d": 86400, "day": 86400, "days": 86400, "w": 604800, "week": 604800}


def td(seconds):
    return dt.timedelta(microseconds=round(seconds * 1_000_000))


# ------------------------------------------------------------------------------------------
# structured specifications
#   datetime part: {"date": None | ["ymd", y, m, d] | ["md", m, d], "time": ["hms", h, m, s_float] | ["noon"] | ["midnight"]
#                   | ["sunrise"] | ["sunset"] | ["now"], "off": None | [number, unit]}
#   spec: {"kind": "once", "dt": D} | {"kind": "period", "start": D, "interval": [number, unit], "end": None | D}
#         | {"kind": "cron", "fields": [5 strings]}
# ------------------------------------------------------------------------------------------


def render_dt(d, R=None):
    parts = []
    if d["time"][0] == "now":
        s = "now"
    else:
        if d["date"] is not None:
            if d["date"][0] == "ymd":
                parts.append(f"{d['date'][1]}/{d['date'][2]:02d}/{d['date'][3]}")
            elif d["date"][0] == "dow":
                parts.append(DOW_NAMES[d["date"][1]][:3] if d.get("short") else DOW_NAMES[d["date"][1]])
            elif d["date"][0] in ("today", "tomorrow"):
                parts.append(d["date"][0])
            else:
                parts.append(f"{d['date'][1]}/{d['date'][2]}")
        t = d["time"]
        if t[0] == "hms":
            h, m, s = t[1], t[2], t[3]
            if s == 0 and d.get("short"):
                parts.append(f"{h}:{m:02d}")
            elif float(s).is_integer():
                parts.append(f"{h:02d}:{m:02d}:{int(s):02d}")
            else:
                parts.append(f"{h}:{m:02d}:{s}")
        else:
            parts.append(t[0])
        s = " ".join(parts)
    if d["off"] is not None:
        n, u = d["off"]
        sign = "+" if n >= 0 else "-"
        num = abs(n)
        num_s = str(int(num)) if float(num).is_integer() else str(num)
        s += f" {sign} {num_s}{' ' if d.get('space') else ''}{u}"
    return s


def render(spec):
    if spec["kind"] == "once":
        return f"once({render_dt(spec['dt'])})"
    if spec["kind"] == "period":
        n, u = spec["interval"]
        num_s = str(int(n)) if float(n).is_integer() else str(n)
        s = f"period({render_dt(spec['start'])}, {num_s}{u}"
        if spec["end"] is not None:
            s += f", {render_dt(spec['end'])}"
        return s + ")"
    return "cron(" + " ".join(spec["fields"]) + ")"


DOW_NAMES = ["sunday", "monday", "tuesday", "wednesday", "thursday", "friday", "saturday"]  # 0 = sunday, as in cron()


def off_td(d):
    if d["off"] is None:
        return dt.timedelta(0)
    n, u = d["off"]
    return td(n * UNIT_S[u])


class Sun:
    """Sun times from the same astral location object Home Assistant provides (truncated to seconds, as a
    wall-clock reading)."""

    def __init__(self, location):
        self.loc = location
        self.cache = {}

    def get(self, which, date):
        k = (which, date)
        if k not in self.cache:
            try:
                t = getattr(self.loc, which)(date)
                self.cache[k] = (t.date(), t.hour, t.minute, t.second)
            except Exception:  # noqa: BLE001
                self.cache[k] = None
        return self.cache[k]


def dt_on_date(d, date, startup, sun):
    """The instant the datetime part denotes when its (missing) date is `date`."""
    t = d["time"]
    if t[0] == "now":
        return startup + off_td(d)
    base = dt.datetime(date.year, date.month, date.day)
    if t[0] == "hms":
        base += td(t[3] + 60 * (t[2] + 60 * t[1]))
    elif t[0] == "noon":
        base += dt.timedelta(hours=12)
    elif t[0] in ("sunrise", "sunset"):
        s = sun.get(t[0], date)
        if s is None:
            return None
        base = dt.datetime(s[0].year, s[0].month, s[0].day, s[1], s[2], s[3])
    return base + off_td(d)


def dates_for(d, lo, hi, rel=None, dow_first=False):
    """Dates the (possibly partial) date part denotes, between lo and hi.  `rel` is the current date (what 'today' and
    'tomorrow' refer to); dow_first = model variant of the open finding C06-dated-once-offset-carry (a weekday
    denotes only such dates on or after the current date, so an instant that a positive offset carries from an earlier
    weekday into today is not seen)."""
    if d["date"] is not None and d["date"][0] == "ymd":
        return [dt.date(d["date"][1], d["date"][2], d["date"][3])]
    if d["date"] is not None and d["date"][0] in ("today", "tomorrow"):
        return [rel + dt.timedelta(days=1 if d["date"][0] == "tomorrow" else 0)]
    out = []
    day = lo.date() - dt.timedelta(days=9)
    end = hi.date() + dt.timedelta(days=9)
    if d["date"] is not None and d["date"][0] == "dow":
        while day <= end:
            if day.isoweekday() % 7 == d["date"][1]:
                out.append(day)
            day += dt.timedelta(days=1)
        if dow_first:
            out = [x for x in out if x >= rel]
        return out
    while day <= end:
        if d["date"] is None or (day.month == d["date"][1] and day.day == d["date"][2]):
            out.append(day)
        day += dt.timedelta(days=1)
    return out


def instants(spec, lo, hi, startup, sun, cap=50, md_year=None, rel=None, dow_first=False):
    """Independent enumeration of the instants a specification denotes within [lo, hi] (sorted)."""
    out = set()
    if spec["kind"] == "once":
        d = spec["dt"]
        if d["time"][0] == "now":
            out.add(startup + off_td(d))
        else:
            for date in dates_for(d, lo, hi, rel=rel, dow_first=dow_first):
                if md_year is not None and d["date"] is not None and d["date"][0] == "md" and date.year < md_year:
                    continue  # model variant of the open finding C06-dated-once-offset-carry
                t = dt_on_date(d, date, startup, sun)
                if t is not None:
                    out.add(t)
    elif spec["kind"] == "period":
        n, u = spec["interval"]
        step = td(n * UNIT_S[u])
        s, e = spec["start"], spec["end"]
        fixed = s["time"][0] == "now" or (s["date"] is not None and s["date"][0] == "ymd")

        def train(start, end):
            """Instants start + k*step within [max(lo, start), min(hi, end)], at most `cap` of them from lo."""
            if start > hi or (end is not None and end < lo):
                return
            k0 = max(0, -((start - lo) // step)) if lo > start else 0
            t = start + k0 * step
            cnt = 0
            while t <= hi and (end is None or t <= end) and cnt < cap:
                if t >= lo:
                    out.add(t)
                    cnt += 1
                t += step

        if fixed:
            start = dt_on_date(s, dt.date(*s["date"][1:]) if s["time"][0] != "now" else None, startup, sun)
            end = None
            if e is not None:
                end = dt_on_date(e, dt.date(*e["date"][1:]) if e["time"][0] != "now" else None, startup, sun)
            train(start, end)
        else:
            for date in dates_for(s, lo, min(hi, lo + 12 * DAY)):
                start = dt_on_date(s, date, startup, sun)
                if start is None:
                    continue
                if e is None:
                    end = start + DAY - US  # daily re-anchoring: this day's train ends where the next day's starts
                else:
                    end = dt_on_date(e, date, startup, sun)
                    if end is None:
                        continue
                    if end < start:
                        end = dt_on_date(e, date + dt.timedelta(days=1), startup, sun)
                train(start, end)
    else:
        mins, hrs, doms, mons, dows = [cron_set(f, r) for f, r in zip(spec["fields"], [(0, 59), (0, 23), (1, 31), (1, 12), (0, 6)])]
        dom_star = spec["fields"][2] == "*"
        dow_star = spec["fields"][4] == "*"
        t = lo.replace(second=0, microsecond=0)
        if t < lo:
            t += dt.timedelta(minutes=1)
        day = t.date()
        while day <= hi.date() and len(out) < cap:
            if day.month in mons:
                dow = day.isoweekday() % 7
                if dom_star or dow_star:
                    ok = day.day in doms and dow in dows
                else:
                    ok = day.day in doms or dow in dows
                if ok:
                    for h in sorted(hrs):
                        for m in sorted(mins):
                            x = dt.datetime(day.year, day.month, day.day, h, m)
                            if lo <= x <= hi and len(out) < cap:
                                out.add(x)
            day += dt.timedelta(days=1)
    return sorted(out)


def cron_set(field, rng):
    lo, hi = rng
    out = set()
    for part in field.split(","):
        step = 1
        if "/" in part:
            part, st = part.split("/")
            step = int(st)
        if part == "*":
            a, b = lo, hi
        elif "-" in part:
            a, b = (int(x) for x in part.split("-"))
        else:
            a = b = int(part)
            if step != 1:
                b = hi
        out.update(range(a, b + 1, step))
    return out


def is_period_start(spec, t, startup, sun):
    s = spec["start"]
    if s["time"][0] == "now":
        return t == startup + off_td(s)
    if s["date"] is not None and s["date"][0] == "ymd":
        return t == dt_on_date(s, dt.date(*s["date"][1:]), startup, sun)
    return any(t == dt_on_date(s, t.date() + dt.timedelta(days=k), startup, sun) for k in (-1, 0, 1))


def now_anchored(spec):
    d = spec["dt"] if spec["kind"] == "once" else spec["start"] if spec["kind"] == "period" else None
    return d is not None and d["time"][0] == "now"


def two_probe(spec, now, startup, sun):
    """Model variant of the open finding C06-dated-once-offset-carry: the date part (weekday or year-less M/D) is
    resolved to its first occurrence on or after the current date, the offset is applied afterwards, and if that is
    not after `now` one more occurrence is tried, counted from (now - first result) whole days + 1 later."""
    d = spec["dt"]

    def first_on_or_after(day, bump_year):
        if d["date"][0] == "dow":
            while day.isoweekday() % 7 != d["date"][1]:
                day += dt.timedelta(days=1)
            return day
        year = now.year + (1 if bump_year else 0)
        for _ in range(8):
            try:
                return dt.date(year, d["date"][1], d["date"][2])
            except ValueError:
                year += 1
        return None

    d0 = first_on_or_after(now.date(), False)
    t0 = dt_on_date(d, d0, startup, sun) if d0 else None
    if t0 is None:
        return []
    if t0 > now:
        return [t0]
    k = (now - t0).days + 1
    d1 = first_on_or_after(now.date() + dt.timedelta(days=max(k, 0)), k > 0)
    t1 = dt_on_date(d, d1, startup, sun) if d1 else None
    return [t1] if t1 is not None and t1 > now else []


def expected_next(specs, now, startup, sun, horizon_days=1600, md_year=None, dow_first=False):
    best = None
    for spec in specs:
        if dow_first and spec["kind"] == "once" and spec["dt"]["date"] is not None and spec["dt"]["date"][0] in ("dow", "md") and spec["dt"]["off"] is not None:
            ins = two_probe(spec, now, startup, sun)
        else:
            ins = instants(spec, now, now + horizon_days * DAY, startup, sun, cap=3, rel=now.date())
        for t in ins:
            # the definition instant itself counts for now-anchored specifications ("startup" == once(now))
            incl = t == now and now == startup and now_anchored(spec) and (spec["kind"] == "once" or is_period_start(spec, t, startup, sun))
            if t > now or incl:
                if best is None or t < best:
                    best = t
                break
    return best


# ------------------------------------------------------------------------------------------
# generators
# ------------------------------------------------------------------------------------------

SPECIAL_DAYS = [
    dt.date(2024, 2, 29), dt.date(2024, 3, 10), dt.date(2024, 11, 3), dt.date(2025, 3, 9), dt.date(2025, 11, 2),
    dt.date(2024, 12, 31), dt.date(2025, 1, 1), dt.date(2024, 1, 31), dt.date(2025, 2, 28), dt.date(2024, 6, 30),
]


def gen_time(R, allow_sun=True, allow_now=False):
    opts = [(6, "hms"), (1, "noon"), (1, "midnight")]
    if allow_sun:
        opts += [(1, "sunrise"), (1, "sunset")]
    if allow_now:
        opts += [(2, "now")]
    k = R.weighted(opts)
    if k == "hms":
        sec = R.choice([0, 0, 0, 30, 59, 0.5, 13.25, 59.999999])
        return ["hms", R.choice([0, 1, 2, 3, 6, 10, 12, 13, 22, 23]), R.choice([0, 1, 15, 30, 59]), sec]
    return [k]


def gen_off(R, small_only):
    if R.bool(2, 3):
        return None
    if small_only:
        return R.choice([[30, "s"], [-90, "sec"], [20, "m"], [-20, "min"], [1.5, "h"], [-2, "hr"], [0.5, "seconds"], [45, "minutes"]])
    return R.choice([[30, "s"], [-20, "min"], [1.5, "hours"], [2, "d"], [-1, "day"], [1, "w"], [36, "h"], [-0.5, "days"]])


def gen_dt(R, now, force_date=None, allow_now=True):
    time = gen_time(R, allow_now=allow_now and force_date is None)
    if time[0] == "now":
        return {"date": None, "time": time, "off": R.choice([None, [60, "s"], [5, "min"], [1, "h"], [1, "day"], [-10, "s"], [0.1, "s"]]), "space": R.bool()}
    kind = force_date or R.weighted([(4, "none"), (3, "ymd"), (2, "md"), (2, "dow"), (1, "today"), (1, "tomorrow")])
    date = None
    if kind == "dow":
        # biased to the current weekday (the instant of today may already have passed) and its neighbours
        date = ["dow", (now.isoweekday() + R.choice([0, 0, 0, 1, 6, 3])) % 7]
    elif kind in ("today", "tomorrow"):
        date = [kind]
    if kind == "ymd":
        day = now.date() + dt.timedelta(days=R.choice([-40, -2, -1, 0, 0, 1, 2, 30, 300]))
        date = ["ymd", day.year, day.month, day.day]
    elif kind == "md":
        day = now.date() + dt.timedelta(days=R.choice([-40, -1, 0, 1, 30, 200]))
        if R.bool(1, 8):
            day = dt.date(2024, 2, 29)
        date = ["md", day.month, day.day]
    sun_time = time[0] in ("sunrise", "sunset")
    return {"date": date, "time": time, "off": gen_off(R, small_only=(date is None and sun_time)), "short": R.bool(), "space": R.bool()}


def gen_interval(R):
    return R.choice([[0.1, "s"], [1.1, "sec"], [7, "s"], [0.7, "min"], [90, "min"], [2, "h"], [1, "day"], [1.5, "hours"], [10, "minutes"], [1, "week"], [36, "hr"]])


def gen_spec(R, now):
    k = R.weighted([(4, "once"), (4, "period"), (3, "cron")])
    if k == "once":
        return {"kind": "once", "dt": gen_dt(R, now)}
    if k == "period":
        form = R.weighted([(3, "fixed"), (2, "now"), (2, "daily"), (2, "window")])
        if form == "fixed":
            start = gen_dt(R, now, force_date="ymd", allow_now=False)
            end = None
            if R.bool(1, 3):
                end = gen_dt(R, now, force_date="ymd", allow_now=False)
            return {"kind": "period", "start": start, "interval": gen_interval(R), "end": end}
        if form == "now":
            start = {"date": None, "time": ["now"], "off": R.choice([None, [10, "m"], [1, "h"], [0.5, "s"]]), "space": False}
            end = None
            if R.bool(1, 3):
                end = {"date": None, "time": ["now"], "off": R.choice([[30, "min"], [4, "hours"], [2, "days"]]), "space": True}
            return {"kind": "period", "start": start, "interval": gen_interval(R), "end": end}
        if form == "daily":
            # self-consistent daily re-anchoring only: start < interval and interval divides 24 h
            n, u = R.choice([[1, "h"], [2, "hours"], [30, "min"], [12, "hr"], [24, "h"], [1, "day"], [15, "m"], [6, "h"]])
            step = n * UNIT_S[u]
            sec = R.choice([0, 60, 600, 1800, 3599, 7100])
            sec = sec % int(step)
            start = {"date": None, "time": ["hms", sec // 3600, (sec % 3600) // 60, sec % 60], "off": None, "short": R.bool()}
            return {"kind": "period", "start": start, "interval": [n, u], "end": None}
        # windows mix sun times only with sun times: whether a fixed/sun window wraps can flip from day to day
        if R.bool(1, 4):
            a, b = R.choice([("sunset", "sunrise"), ("sunrise", "sunset")])
            start = {"date": None, "time": [a], "off": None, "short": True}
            end = {"date": None, "time": [b], "off": None, "short": True}
        else:
            start = {"date": None, "time": gen_time(R, allow_sun=False), "off": None, "short": True}
            end = {"date": None, "time": gen_time(R, allow_sun=False), "off": None, "short": True}
        return {"kind": "period", "start": start, "interval": R.choice([[1, "h"], [4, "hr"], [12, "hours"], [45, "min"], [12.0001, "hr"]]), "end": end}

    def fld(lo, hi, star_w=3):
        k2 = R.weighted([(star_w, "*"), (3, "n"), (1, "range"), (1, "list"), (1, "step")])
        if k2 == "*":
            return "*"
        if k2 == "n":
            return str(R.int(lo, hi))
        if k2 == "range":
            a = R.int(lo, hi - 1)
            return f"{a}-{R.int(a + 1, hi)}"  # a-a is mis-read by croniter (third party): not generated, see DESIGN
        if k2 == "list":
            return ",".join(str(x) for x in sorted({R.int(lo, hi) for _ in range(R.int(2, 3))}))
        return f"*/{R.choice([2, 5, 15])}"

    dom = fld(1, 28, star_w=6)
    dow = fld(0, 6, star_w=6) if (dom == "*" or R.bool(1, 5)) else "*"
    if "/" in dom and dow != "*":
        dom = "*"
    if "/" in dow and dom != "*":
        dow = "*"
    return {"kind": "cron", "fields": [fld(0, 59, 2), fld(0, 23), dom, fld(1, 12, star_w=8), dow]}


def gen_now(R, specs, startup, sun, anchor):
    base = anchor + dt.timedelta(days=R.choice([-2, -1, 0, 0, 0, 1, 3, 30]), seconds=R.int(0, 86399))
    k = R.weighted([(3, "boundary"), (2, "special"), (2, "random"), (1, "startup")])
    if k == "startup":
        return startup
    if k == "special":
        day = R.choice(SPECIAL_DAYS)
        return dt.datetime(day.year, day.month, day.day) + R.choice([dt.timedelta(0), dt.timedelta(hours=1, minutes=59, seconds=59), dt.timedelta(hours=2), dt.timedelta(hours=12), DAY - US, dt.timedelta(hours=1, minutes=30)])
    if k == "boundary":
        ins = instants(R.choice(specs), base, base + 40 * DAY, startup, sun, cap=20, rel=base.date())
        if ins:
            return R.choice(ins[:20]) + R.choice([-US, dt.timedelta(0), US])
    return base + dt.timedelta(microseconds=R.choice([0, 0, 1, 500000, 999999]))


# ------------------------------------------------------------------------------------------
# the check
# ------------------------------------------------------------------------------------------


def in_gap(t):
    """Naive local times that do not exist (spring-forward hour) in the harness zone."""
    z = zoneinfo.ZoneInfo(TZ)
    u = t.replace(tzinfo=z).astimezone(dt.timezone.utc).astimezone(z).replace(tzinfo=None)
    return u != t


def out_of_gap(t):
    return t + dt.timedelta(hours=1) if in_gap(t) else t


def iso(t):
    return None if t is None else t.isoformat(sep=" ")


class C06(ModelCheck):
    prop = PROP
    rule = (
        "(A) pure successor function: structured specifications (once / period with or without end / cron; dates full, "
        "month/day, weekday name (full or 3 letters), today / tomorrow or omitted; times h:m[:s[.f]], noon, midnight, sunrise, sunset, now; offsets s..w incl. fractional; "
        "self-consistent daily periods only) rendered to text; current times in 2024-2025 biased to a denoted instant "
        "+/- 1 us, leap day, month/year ends and the US/Pacific transition days; lists of 1-3 specifications. Oracle: an "
        "independent calendar enumerator over the structure (own crontab matcher, sun times from the same astral "
        "location) gives the least instant > now (== now at the definition instant); laws checked on every case: "
        "successor > now, idempotence between now and the successor, no skip, list = minimum, and for cron "
        "next_adj - now == real elapsed seconds under zoneinfo. (B) run loop: a decorated function on the virtual clock "
        "for up to 3 virtual days must run exactly once per denoted instant with trigger_time equal to it, both "
        "subsystems. Non-trivial = now within 1 us of a denoted instant, or on a special day, or >= 2 live "
        "specifications; distinct by (specifications, now)."
    )
    assumptions = [
        "a weekday date denotes every date with that weekday (documentation: 'sunday sunset - 1.5 hour' = on Sundays); 'today' / 'tomorrow' are read relative to the current date of each evaluation, so the idempotence law is applied to them only within one day",
        "sun times are read from Home Assistant's astral location (the trusted source), truncated to whole seconds",
        "cron day-of-month/day-of-week: both restricted -> either matches (crontab rule)",
    ]

    def __init__(self):
        self._ctx = None

    def n_random(self, tier):
        return {"quick": 12000, "thorough": 600000}[tier]

    # all cases of a shard share one bare hass (pure functions)
    def run_shard(self, tier, shard_i, shard_n):
        res = asyncio.run(self._shard_async(tier, shard_i, shard_n))
        # (B) run-loop cases on the virtual clock, each on its own loop
        nb = {"quick": 192, "thorough": 6400}[tier] // shard_n
        pending = []
        core.run_hypothesis(lambda R: pending.append(gen_loop_case(R)), nb, core.seed() * 7919 + shard_i)
        for c in pending:
            if res.counters.get("mismatch_total", 0) >= 100:
                break
            self.check_loop_case(res, c)
        res.count("runloop_cases", len(pending))
        # (C) daylight-saving days: wall clock derived from virtual UTC through zoneinfo
        dst_cases = [c for i_, c in enumerate(dst_loop_cases()) if i_ % shard_n == shard_i]
        for c in dst_cases:
            self.check_dst_case(res, c)
        res.count("dst_runloop_cases", len(dst_cases))
        return res

    def check_dst_case(self, res, case):
        try:
            r = l3.run_case(exec_dst_case, case)
        except Exception:  # noqa: BLE001
            import traceback

            res.count("harness_exception")
            res.errors.append(f"dst harness exception on {json.dumps(case)[:300]}: {traceback.format_exc()[-1200:]}")
            return
        res.case({"dst": case}, True)
        res.klass("dst-runloop")
        if r["expected"] != r["observed"]:
            fid = None
            for f in core.open_findings(PROP):
                if f["id"] == "C06-period-follows-wall-clock-across-dst" and case["spec"].startswith("period"):
                    fid = f["id"]
            if fid:
                res.known(fid)
                return
            res.mismatch("dst-runloop|" + case["spec"].split("(")[0] + "|" + ("legacy" if case["legacy"] else "new"), case, expected=r["expected"], observed=r["observed"])

    def check_loop_case(self, res, case):
        try:
            r = l3.run_case(exec_loop_case, case)
        except Exception:  # noqa: BLE001 - harness error, never a verdict
            import traceback

            res.count("harness_exception")
            res.errors.append(f"run-loop harness exception on {json.dumps(case)[:300]}: {traceback.format_exc()[-1200:]}")
            return
        res.case({"runloop": case["texts"], "horizon_s": case["horizon"], "legacy": case["legacy"]}, len(r["expected"]) >= 2)
        res.klass("runloop")
        res.klass("runloop-legacy" if case["legacy"] else "runloop-new")
        if r["ok"]:
            return
        res.mismatch("runloop|" + r["why"] + "|" + ("legacy" if case["legacy"] else "new"), case, expected=r["expected"], observed=r["observed"], detail={"texts": case["texts"]})

    async def _shard_async(self, tier, shard_i, shard_n):
        async with l1.bare_hass() as hass:
            await hass.config.async_set_time_zone(TZ)
            from homeassistant.helpers import sun as ha_sun

            loc = ha_sun.get_astral_location(hass)
            if isinstance(loc, tuple):
                loc = loc[0]
            self._ctx = {"hass": hass, "sun": Sun(loc)}
            res = core.ShardResult()
            if shard_i == 0:
                for c in self.regress_cases():
                    await self.acheck(res, c, "regress")
            pending = []

            def casefn(R):
                pending.append(self.gen(R))

            n = self.n_random(tier) // shard_n
            done = b = 0
            while done < n:
                k = min(500, n - done)
                pending.clear()
                core.run_hypothesis(casefn, k, core.seed() * 100003 + shard_i * 1009 + b)
                for c in list(pending):
                    if res.counters.get("mismatch_total", 0) >= 100:
                        break
                    await self.acheck(res, c, "random")
                done += k
                b += 1
            res.count("random_cases", done)
        # (B) run-loop cases on the virtual clock (each its own loop): executed after the bare hass is closed
        return res

    def regress_cases(self):
        return self.fixed_regress()

    def gen(self, R):
        startup = dt.datetime(2024, 1, 1) + dt.timedelta(days=R.int(0, 700), seconds=R.int(0, 86399), microseconds=R.choice([7, 100003]))
        if R.bool(1, 4):
            d0 = R.choice(SPECIAL_DAYS) - dt.timedelta(days=R.choice([0, 0, 1, 2]))
            startup = dt.datetime(d0.year, d0.month, d0.day) + dt.timedelta(seconds=R.int(0, 86399), microseconds=7)
        nspec = R.weighted([(5, 1), (2, 2), (1, 3)])
        anchor = startup + dt.timedelta(days=R.choice([0, 0, 1, 5, 40, 200]))
        specs = [gen_spec(R, anchor) for _ in range(nspec)]
        now = gen_now(R, specs, startup, self._ctx["sun"], anchor)
        if now <= startup and not all(now_anchored(sp) for sp in specs):
            startup = now - dt.timedelta(seconds=R.choice([1, 3600]), microseconds=3)
        elif now < startup:
            startup = now - dt.timedelta(seconds=R.choice([0, 1, 3600]))
        now = out_of_gap(now)
        return {"specs": specs, "now": iso(now), "startup": iso(startup)}

    async def call(self, texts, now, startup):
        from custom_components.pyscript.trigger import TrigTime

        try:
            r = await TrigTime.timer_trigger_next(list(texts), now, startup)
            return r, None
        except Exception as e:  # noqa: BLE001
            return (None, None), type(e).__name__ + ": " + str(e)[:80]

    async def arun(self, case, md_year_variant=False, dow_variant=False):
        sun = self._ctx["sun"]
        now = dt.datetime.fromisoformat(case["now"])
        startup = dt.datetime.fromisoformat(case["startup"])
        specs = case["specs"]
        texts = [render(s) for s in specs]
        mdy = now.year if md_year_variant else None
        exp = expected_next(specs, now, startup, sun, md_year=mdy, dow_first=dow_variant)
        rel_dates = any(sp["kind"] == "once" and sp["dt"]["date"] is not None and sp["dt"]["date"][0] in (("today", "tomorrow", "dow") if dow_variant else ("today", "tomorrow")) for sp in specs)
        (got, got_adj), err = await self.call(texts, now, startup)
        problems = []
        if err:
            problems.append("exception:" + err.split(":")[0])
        elif got != exp:
            problems.append("successor")
        else:
            if got is not None:
                if not (got > now or (got == now == startup)):
                    problems.append("law:not-after-now")
                # idempotence: any now' strictly between now and next has the same successor
                if got - now > 2 * US:
                    mid = out_of_gap(now + (got - now) / 2)
                    if not (now < mid < got):
                        mid = now + US
                    (g2, _), e2 = await self.call(texts, mid, startup)
                    if md_year_variant and mid.year != now.year:
                        pass  # under the variant the denoted set depends on the current year
                    elif rel_dates and mid.date() != now.date():
                        pass  # 'today' / 'tomorrow' (and, under the weekday variant, a weekday) refer to the current date
                    elif e2 or g2 != got:
                        problems.append("law:idempotence")
                # no skip: successor of successor is the following oracle element
                (g3, _), e3 = await self.call(texts, got, startup)
                exp3 = expected_next(specs, got, startup, sun, md_year=(got.year if md_year_variant else None), dow_first=dow_variant)
                if got == startup or in_gap(got):
                    pass
                elif e3 or g3 != exp3:
                    problems.append("law:no-skip")
                # list is the minimum of its elements
                if len(specs) > 1:
                    singles = []
                    for t in texts:
                        (g1, _), e1 = await self.call([t], now, startup)
                        if e1 is None and g1 is not None:
                            singles.append(g1)
                    if (min(singles) if singles else None) != got:
                        problems.append("law:list-minimum")
                # real-time distance across daylight-saving changes
                if got_adj is not None:
                    z = zoneinfo.ZoneInfo(TZ)
                    real = (got.replace(tzinfo=z).astimezone(dt.timezone.utc) - now.replace(tzinfo=z).astimezone(dt.timezone.utc)).total_seconds()
                    is_cron_winner = any(s["kind"] == "cron" for s in specs) and len(specs) == 1
                    if is_cron_winner and real > 0 and abs((got_adj - now).total_seconds() - real) > 1e-6:
                        problems.append("law:cron-real-elapsed")
        near = False
        for s in specs:
            ins = instants(s, now - dt.timedelta(seconds=1), now + dt.timedelta(seconds=1), startup, sun, rel=now.date())
            if any(abs((t - now).total_seconds()) <= 1e-6 for t in ins):
                near = True
        special = now.date() in SPECIAL_DAYS
        return {
            "expected": {"next": iso(exp), "problems": []},
            "observed": {"next": iso(got), "problems": problems},
            "nontrivial": near or special or len(specs) >= 2,
            "classes": [s["kind"] for s in specs] + (["near-instant"] if near else []) + (["special-day"] if special else []) + (["no-successor"] if exp is None else []),
            "detail": {"texts": texts, "error": err},
        }

    async def arun_full(self, case):
        """arun plus, on a mismatch, the model variant of the open finding C06-dated-once-offset-carry."""
        r = await self.arun(case)
        if self.mismatch(r):
            r["variant_carry_ok"] = not self.mismatch(await self.arun(case, md_year_variant=True, dow_variant=True))
        return r

    async def acheck(self, res, case, klass):
        try:
            r = await self.arun_full(case)
        except Exception:  # harness bug
            import traceback

            res.count("harness_exception")
            res.errors.append(f"harness exception on {json.dumps(case)[:300]}: {traceback.format_exc()[-1200:]}")
            return
        res.case({"specs": r["detail"]["texts"], "now": case["now"], "startup": case["startup"]}, r["nontrivial"])
        res.klass(klass)
        for k in r["classes"]:
            res.klass(k)
        if not self.mismatch(r):
            return
        fid = self.attribute(case, r)
        if fid:
            res.known(fid)
            return
        # shrink: drop specifications while the same problem persists
        b = self.bucket(case, r)
        if len(case["specs"]) > 1 and len(res.mismatches) < 10:
            for i in range(len(case["specs"])):
                c2 = dict(case)
                c2["specs"] = [case["specs"][i]]
                r2 = await self.arun_full(c2)
                if self.mismatch(r2) and self.bucket(c2, r2) == b and not self.attribute(c2, r2):
                    case, r = c2, r2
                    break
        res.mismatch(b, case, expected=r["expected"], observed=r["observed"], detail=r["detail"])

    def run(self, case):
        async def go():
            async with l1.bare_hass() as hass:
                await hass.config.async_set_time_zone(TZ)
                from homeassistant.helpers import sun as ha_sun

                loc = ha_sun.get_astral_location(hass)
                if isinstance(loc, tuple):
                    loc = loc[0]
                self._ctx = {"hass": hass, "sun": Sun(loc)}
                return await self.arun_full(case)

        return asyncio.run(go())

    def mismatch(self, r):
        return r["expected"]["next"] != r["observed"]["next"] or bool(r["observed"]["problems"])

    def bucket(self, case, r):
        kinds = sorted({s["kind"] + ("-end" if s["kind"] == "period" and s["end"] else "") for s in case["specs"]})
        return ",".join(r["observed"]["problems"] or ["successor"]) + "|" + "+".join(kinds)

    def attribute(self, case, r):
        for f in core.open_findings(PROP):
            fn = ATTRIBUTORS.get(f["id"])
            if fn and fn(case, r):
                return f["id"]
        return None


def attr_carry(case, r):
    """once() with a weekday or a year-less M/D date and an offset that moves the instant onto another day: the date is
    resolved relative to the current date before the offset is applied, so an instant belonging to the previous (or, for
    negative offsets, the next-but-one) occurrence of the date can be skipped.  Attributed only if the two-probe model
    of that procedure (two_probe) explains the observation completely."""
    def carries(sp):
        d = sp.get("dt")
        return sp["kind"] == "once" and d["date"] is not None and d["date"][0] in ("md", "dow") and d["off"] is not None
    return any(carries(sp) for sp in case["specs"]) and bool(r.get("variant_carry_ok"))


def attr_feb29(case, r):
    """2/29 evaluated in a non-leap year raises ValueError: either the call itself, or the evaluations the laws make at
    the successor (no-skip) and half-way to it (idempotence); each reported problem must fall in a non-leap year."""
    probs = r["observed"]["problems"]
    if not probs or not (probs[0].startswith("exception:ValueError") or set(probs) <= {"law:no-skip", "law:idempotence"}):
        return False
    if not any(
        d is not None and d["date"] is not None and d["date"][0] == "md" and d["date"][1:] == [2, 29]
        for sp in case["specs"] for d in ([sp.get("dt")] if sp["kind"] == "once" else [sp.get("start"), sp.get("end")] if sp["kind"] == "period" else [])
    ):
        return False
    now = dt.datetime.fromisoformat(case["now"])

    def common(year):
        return not (year % 4 == 0 and (year % 100 != 0 or year % 400 == 0))

    if probs[0].startswith("exception:ValueError"):
        return common(now.year)
    got = r["observed"]["next"]
    if got is None:
        return False
    got = dt.datetime.fromisoformat(got)
    ok = True
    if "law:no-skip" in probs:
        ok = ok and common(got.year)
    if "law:idempotence" in probs:
        mid = out_of_gap(now + (got - now) / 2)
        if not (now < mid < got):
            mid = now + US
        ok = ok and common(mid.year)
    return ok


# ------------------------------------------------------------------------------------------
# (B) run loop on the virtual clock
# ------------------------------------------------------------------------------------------


def gen_loop_case(R):
    """Specifications whose instants fall within a short virtual horizon after the definition instant
    (virtual wall clock starts at 2024-06-12 10:00:00)."""
    specs = []
    if R.bool(1, 6):
        # recurrence of dated once() specifications: weekly over 15 days, yearly over 370 days (sparse, so cheap)
        tm = R.choice([["hms", 10, 1, 0], ["hms", 9, 59, 0], ["noon"], ["midnight"], ["hms", 23, 30, 0.5]])
        if R.bool():
            specs.append({"kind": "once", "dt": {"date": ["dow", R.choice([3, 3, 4, 2, 0])], "time": tm, "off": None, "short": R.bool()}})
            horizon = 15 * 86400
        else:
            specs.append({"kind": "once", "dt": {"date": ["md", 6, R.choice([12, 12, 13, 11])], "time": tm, "off": None}})
            horizon = 370 * 86400
        if R.bool(1, 3):
            specs.append({"kind": "once", "dt": {"date": ["ymd", 2024, 6, R.choice([14, 20])], "time": ["hms", 8, 0, 0], "off": None}})
        extra = R.choice([[], ["startup"], ["shutdown"]])
        return {"specs": specs, "texts": [render(sp) for sp in specs] + extra, "horizon": horizon + 0.137, "legacy": R.bool(), "extra": extra}
    for _ in range(R.weighted([(4, 1), (2, 2), (1, 3)])):
        k = R.weighted([(3, "pnow"), (2, "onow"), (3, "cron"), (2, "once"), (2, "pdaily")])
        if k == "pnow":
            a = R.choice([None, [10, "s"], [1, "min"], [0.5, "s"]])
            e = R.choice([None, None, [5, "min"], [45, "s"], [2, "h"]])
            specs.append({"kind": "period", "start": {"date": None, "time": ["now"], "off": a}, "interval": R.choice([[7, "s"], [1.1, "sec"], [1, "min"], [90, "s"], [0.7, "min"], [1, "h"]]),
                          "end": None if e is None else {"date": None, "time": ["now"], "off": e}})
        elif k == "onow":
            specs.append({"kind": "once", "dt": {"date": None, "time": ["now"], "off": R.choice([[30, "s"], [5, "min"], [1.5, "h"], [0.25, "s"]])}})
        elif k == "cron":
            specs.append({"kind": "cron", "fields": R.choice([["*", "*", "*", "*", "*"], ["*/5", "*", "*", "*", "*"], ["30", "10", "*", "*", "*"], ["0", "*/2", "*", "*", "*"], ["15,45", "10-11", "*", "*", "3"], ["1", "0", "*", "*", "*"]])})
        elif k == "once":
            specs.append({"kind": "once", "dt": {"date": R.choice([None, None, ["ymd", 2024, 6, 12], ["md", 6, 13]]), "time": R.choice([["hms", 10, 1, 0], ["hms", 10, 0, 30], ["noon"], ["hms", 11, 30, 0.5], ["midnight"], ["hms", 9, 59, 0]]), "off": R.choice([None, None, [90, "s"], [-10, "min"]])}})
        else:
            specs.append({"kind": "period", "start": {"date": None, "time": ["hms", 0, R.choice([0, 10, 20]), 0], "off": None}, "interval": R.choice([[30, "min"], [1, "h"], [2, "hours"]]), "end": None})
    horizon = R.choice([90, 1200, 3 * 3600, 26 * 3600, 50 * 3600])
    if any(sp["kind"] == "period" and UNIT_S[sp["interval"][1]] * sp["interval"][0] < 60 and sp["end"] is None for sp in specs):
        horizon = min(horizon, 1200)
    if any(sp["kind"] == "cron" and sp["fields"][0] == "*" for sp in specs):
        horizon = min(horizon, 3 * 3600)
    horizon += 0.137  # never within 5 ms of a denoted instant
    extra = R.choice([[], [], ["startup"], ["shutdown"], ["startup", "shutdown"]])
    return {"specs": specs, "texts": [render(sp) for sp in specs] + extra, "horizon": horizon, "legacy": R.bool(), "extra": extra}


async def exec_loop_case(case):
    src = (
        "@time_trigger(" + ", ".join(repr(t) for t in case["texts"]) + ")\n"
        "def f(trigger_type=None, trigger_time=None, **kw):\n"
        "    vrec('t', trigger_type, str(trigger_time))\n"
    )
    async with l3.Integ({"hello.py": src}, legacy=case["legacy"], autostart=False, tz=TZ) as it:
        from homeassistant.helpers import sun as ha_sun

        loc = ha_sun.get_astral_location(it.hass)
        if isinstance(loc, tuple):
            loc = loc[0]
        sun = Sun(loc)
        t0 = it.vt()
        startup = it.vnow()
        await it.start()
        await it.sleep_until(t0 + case["horizon"] + 0.1)
        recs = [(vt - t0, a[2]) for vt, a, kw in it.records if a[0] == "t"]
        n_before_unload = len(recs)
        await it.unload()
        recs = [(vt - t0, a[2]) for vt, a, kw in it.records if a[0] == "t"]
        recs = [r_ for r_ in recs if r_[1] in ("startup", "shutdown") or r_[0] <= case["horizon"]]
        errs = it.errors()
    hi = startup + dt.timedelta(seconds=case["horizon"])
    exp = set()
    for sp in case["specs"]:
        for t in instants(sp, startup - dt.timedelta(milliseconds=5), hi, startup, sun, cap=100000, rel=startup.date()):
            if t > hi:
                continue
            if t > startup + dt.timedelta(milliseconds=5) or now_anchored(sp):
                if now_anchored(sp) and t < startup - dt.timedelta(milliseconds=1):
                    continue
                exp.add(t)
    exp = sorted(exp)
    # merge instants closer than 5 ms (several specifications denoting the same instant run the function once)
    merged = []
    for t in exp:
        merged.append(t)  # instants that differ by microseconds are distinct instants: one run each
    expected = [[round((t - startup).total_seconds(), 3), "time"] for t in merged]
    observed = []
    startup_runs = shutdown_runs = 0
    for i, (rel, tt) in enumerate(recs):
        if tt == "startup":
            startup_runs += 1
            continue
        if tt == "shutdown":
            shutdown_runs += 1
            continue
        try:
            ttime = dt.datetime.fromisoformat(tt)
        except ValueError:
            observed.append([round(rel, 3), "bad:" + tt])
            continue
        # the run must happen at its trigger_time (within tolerance) and trigger_time must be the denoted instant
        observed.append([round((ttime - startup).total_seconds(), 3), "time" if abs((ttime - startup).total_seconds() - rel) <= 0.005 else f"late-or-early:{rel:.3f}"])
    why = None
    if len(expected) != len(observed):
        why = "count"
    else:
        for e, o in zip(expected, observed):
            if o[1] != "time" or abs(e[0] - o[0]) > 0.005:
                why = "instant"
                break
    exp_start = 1 if "startup" in case["extra"] else 0
    exp_shut = 1 if "shutdown" in case["extra"] else 0
    if why is None and (startup_runs != exp_start or shutdown_runs != exp_shut):
        why = "startup-shutdown"
    if why is None and errs:
        why = "error-logged"
    return {"ok": why is None, "why": why or "", "expected": expected + [["startup", exp_start], ["shutdown", exp_shut]],
            "observed": observed + [["startup", startup_runs], ["shutdown", shutdown_runs]] + [e[2][:200] for e in errs[:2]]}


def dst_loop_cases():
    out = []
    for day in ("2024-03-10", "2024-11-03", "2024-03-11"):
        for spec in ("cron(0 6 * * *)", "cron(30 7 * * *)", "once(06:00)", "once(4:15:30)", "period(now, 1h)"):
            for legacy in (False, True):
                out.append({"day": day, "spec": spec, "legacy": legacy})
    return out


async def exec_dst_case(case):
    src = (
        f"@time_trigger({case['spec']!r})\n"
        "def f(trigger_type=None, trigger_time=None, **kw):\n"
        "    vrec('t', str(trigger_time))\n"
    )
    base = dt.datetime.fromisoformat(case["day"] + " 00:30:00")
    async with l3.Integ({"hello.py": src}, legacy=case["legacy"], autostart=False, tz=TZ, base_dt=base, dst_clock=True) as it:
        t0 = it.vt()
        await it.start()
        await it.sleep_until(t0 + 9 * 3600 + 0.137)
        recs = [(round(vt - t0, 1), a[1]) for vt, a, kw in it.records if a[0] == "t"]
        await it.unload()
    if case["spec"].startswith("period"):
        # equally spaced in real (virtual UTC) time: one run per 3600 s, first at the definition instant
        expected = [float(3600 * k) for k in range(0, 10)]
        observed = [r_[0] for r_ in recs]
    else:
        hh = {"cron(0 6 * * *)": "06:00:00", "cron(30 7 * * *)": "07:30:00", "once(06:00)": "06:00:00", "once(4:15:30)": "04:15:30"}[case["spec"]]
        expected = [f"{case['day']} {hh}"]
        observed = [r_[1] for r_ in recs]
        if case["spec"].startswith("cron"):
            # cron follows the local wall clock across the change: the run happens when the wall clock reads the instant,
            # i.e. after the real time between the (aware) definition instant and the (aware) trigger instant
            z = zoneinfo.ZoneInfo(TZ)
            inst = dt.datetime.fromisoformat(expected[0]).replace(tzinfo=z)
            real = (inst.astimezone(dt.timezone.utc) - base.replace(tzinfo=z).astimezone(dt.timezone.utc)).total_seconds()
            expected = [[expected[0], real]]
            observed = [[r_[1], r_[0]] for r_ in recs]
    return {"expected": expected, "observed": observed}


ATTRIBUTORS = {"C06-dated-once-offset-carry": attr_carry, "C06-feb29-valueerror": attr_feb29}
CHECK = C06()


def run_shard(tier, i, n):
    return CHECK.run_shard(tier, i, n)


def replay(path):
    return CHECK.replay(path)


def main(tier):
    return CHECK.main(tier)
