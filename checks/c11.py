"""C11 - each file has an isolated global context; modules are shared singletons (pyscript vs CPython modules)."""

from __future__ import annotations

import builtins
import importlib
import json
import os
import shutil
import sys
import tempfile

from vlib import core, l1, l3
from vlib.modelcheck import ModelCheck

PROP = "C11"
IMPORT_FORMS = ["import m1", "from m1 import bump, fail, x as m1x", "from m1 import *", "import pkg", "from pkg import deep", "from pkg.sub import subval, touch"]


def module_sources(case):
    m1 = [
        "x = 'm1-x'",
        "counter = 0",
        "_private = 'hidden'",
        "log = []",
        "def bump(n):",
        "    global counter",
        "    counter += n",
        "    vrec('m1', 'bump', counter, x)",
        "    return counter",
        "def fail(kind):",
        "    vrec('m1', 'fail', x)",
        "    if kind == 0:",
        "        raise ValueError('m1-fail')",
        "    return [][1]",
        "def call_back(f, arg):",
        "    vrec('m1', 'call_back', x)",
        "    r = f(arg)",
        "    vrec('m1', 'after_cb', x, counter)",
        "    return r",
        "def setx(v):",
        "    global x",
        "    x = v",
        "    return x",
        "def counted(func):",
        "    def wrapper(*args, **kw):",
        "        global counter",
        "        counter += 1",
        "        vrec('m1', 'wrapped', x, counter)",
        "        return func(*args, **kw)",
        "    return wrapper",
    ]
    if case["m1_imports_pkg"]:
        m1.insert(0, "import pkg")
        m1 += ["def via_pkg(n):", "    return pkg.deep(n) + counter"]
    pkg_init = [
        "from . import sub" if case["pkg_rel"] else "x = 'pkg-x-early'",
        "x = 'pkg-x'",
        "def deep(n):",
        "    vrec('pkg', 'deep', x, n)",
        "    if n < 0:",
        "        raise KeyError('pkg-deep')",
        "    return n * 2",
    ]
    sub = [
        "x = 'sub-x'",
        "subval = 41",
        "touched = 0",
        "def touch():",
        "    global touched",
        "    touched += 1",
        "    vrec('sub', 'touch', touched, x)",
        "    return touched",
    ]
    return {"modules/m1.py": "\n".join(m1) + "\n", "modules/pkg/__init__.py": "\n".join(pkg_init) + "\n", "modules/pkg/sub.py": "\n".join(sub) + "\n"}


CALLS = {
    "bump": ("m1", "m1.bump({n})", "bump({n})"),
    "fail": ("m1", "m1.fail({k})", "fail({k})"),
    "callback": ("m1", "m1.call_back(local_fn, {n})", None),
    "setx": ("m1", "m1.setx('set-by-{f}')", None),
    "via_pkg": ("m1pkg", "m1.via_pkg({n})", None),
    "deep": ("pkg", "pkg.deep({n})", "deep({n})"),
    "touch": ("sub", None, "touch()"),
    "wrapped": ("deco", None, "wrapped_fn({n})"),
}


def script_source(name, spec, case):
    L = [f"x = '{name}-x'", "y = 0", f"shared = ['{name}']"]
    forms = spec["imports"]
    for i in forms:
        L.append(IMPORT_FORMS[i])
    have_m1 = 0 in forms
    have_pkg = 3 in forms
    names = set()
    if 1 in forms:
        names |= {"bump", "fail"}
    if 2 in forms:
        names |= {"bump", "fail", "call_back", "setx", "counted"} | ({"via_pkg"} if case["m1_imports_pkg"] else set())
    if 4 in forms:
        names.add("deep")
    if 5 in forms:
        names.add("touch")
    L += [
        "def local_fn(n):",
        "    global y",
        "    y += n",
        f"    vrec('{name}', 'local_fn', x, y)",
        "    return y",
        "def probe(tag):",
        f"    vrec('{name}', 'probe', tag, x, y, shared)",
    ]
    if have_m1 or "counted" in names:
        # a decorator defined in the module wraps a function of this file: the wrapper runs on the module's globals
        names.add("wrapped")
        L += [
            "@m1.counted" if have_m1 else "@counted",
            "def wrapped_fn(n):",
            "    global y",
            "    y += 10",
            f"    vrec('{name}', 'wrapped_fn', x, y)",
            "    return n + 1",
        ]
    L += [
        "def main():",
        "    global x",
        "    probe('start')",
    ]
    for ci, c in enumerate(spec["calls"]):
        kind, qual, bare = CALLS[c["fn"]]
        expr = None
        if qual and have_m1 and kind in ("m1", "m1pkg") and (kind != "m1pkg" or case["m1_imports_pkg"]):
            expr = qual
        elif qual and have_pkg and kind == "pkg":
            expr = qual
        elif bare and c["fn"] in names:
            expr = bare
        if expr is None:
            continue
        expr = expr.format(n=c["n"], k=c["n"] % 2, f=name)
        L += [
            "    try:",
            f"        r = {expr}",
            f"        vrec('{name}', 'ret', {ci}, r)",
            "    except (ValueError, IndexError, KeyError) as e:",
            f"        vrec('{name}', 'exc', {ci}, type(e).__name__)",
            f"    probe('after{ci}')",
        ]
        if c.get("mutate"):
            L += [f"    x = x + '+{ci}'", f"    shared.append({ci})"]
    L += ["    probe('end')", "    return y", ""]
    return "\n".join(L)


def gen(R):
    case = {"m1_imports_pkg": R.bool(), "pkg_rel": R.bool(), "legacy": R.bool(1, 4), "scripts": {}}
    for name in ["a", "b"] + (["c"] if R.bool(1, 3) else []):
        forms = [i for i in range(len(IMPORT_FORMS)) if R.bool(2, 5)]
        if case["pkg_rel"] is False:
            forms = [i for i in forms if i != 5]
        if 5 in forms and 3 not in forms:
            # Python executes the parent package before a submodule; pyscript loads pkg/sub.py alone - not part
            # of the property, so the package itself is always imported first here
            forms = sorted(set(forms) | {3})
        calls = []
        for _ in range(R.int(1, 5)):
            calls.append({"fn": R.choice(sorted(CALLS)), "n": R.choice([-1, 0, 1, 2, 3]), "mutate": R.bool(1, 3)})
        case["scripts"][name] = {"imports": forms, "calls": calls, "via": R.choice(["event", "task", "service"])}
    order = []
    for _ in range(R.int(2, 6)):
        order.append(R.choice(sorted(case["scripts"])))
    case["order"] = order
    return case


def canon_globals(d):
    out = {}
    for k, v in d.items():
        if k.startswith("__") or callable(v) or type(v).__name__ in ("module", "EvalFuncVar", "EvalFunc"):
            if type(v).__name__ == "module":
                out[k] = "module:" + v.__name__
            continue
        if k.startswith("pyscript.") or k in ("vrec",):
            continue
        out[k] = json.loads(json.dumps(v, default=repr))
    return out


def run_cpython(case):
    """Reference: the same files as ordinary Python modules."""
    d = tempfile.mkdtemp(prefix="verif-c11-")
    log = []
    saved_path = list(sys.path)
    saved_mods = set(sys.modules)
    try:
        for rel, src in module_sources(case).items():
            p = os.path.join(d, rel.replace("modules/", ""))
            os.makedirs(os.path.dirname(p), exist_ok=True)
            with open(p, "w") as f:
                f.write(src)
        for name, spec in case["scripts"].items():
            with open(os.path.join(d, f"script_{name}.py"), "w") as f:
                f.write(script_source(name, spec, case))
        builtins.vrec = lambda *a: log.append(json.loads(json.dumps(list(a), default=repr)))
        sys.path.insert(0, d)
        sys.dont_write_bytecode = True
        mods = {}
        load_errors = {}
        for name in sorted(case["scripts"]):
            try:
                mods[name] = importlib.import_module(f"script_{name}")
            except Exception as e:  # noqa: BLE001
                load_errors[name] = type(e).__name__
        for name in case["order"]:
            if name in mods:
                log.append(["call", name])
                try:
                    mods[name].main()
                except Exception as e:  # noqa: BLE001
                    log.append(["main-raised", name, type(e).__name__])
        globs = {name: canon_globals(vars(m)) for name, m in mods.items()}
        for mn, label in (("m1", "modules.m1"), ("pkg", "modules.pkg"), ("pkg.sub", "modules.pkg.sub")):
            if mn in sys.modules:
                globs[label] = canon_globals(vars(sys.modules[mn]))
        return {"log": log, "globals": globs, "load_errors": load_errors}
    finally:
        del builtins.vrec
        sys.path[:] = saved_path
        for k in list(sys.modules):
            if k not in saved_mods:
                del sys.modules[k]
        shutil.rmtree(d, ignore_errors=True)


async def execute(case):
    from custom_components.pyscript.global_ctx import GlobalContextMgr

    files = dict(module_sources(case))
    for name, spec in case["scripts"].items():
        src = script_source(name, spec, case)
        src += (
            f"\n@event_trigger('go_{name}')\ndef ev_entry(**kw):\n    main()\n    vrec('done', '{name}')\n"
            f"\n@service\ndef svc_{name}():\n    main()\n    vrec('done', '{name}')\n"
            f"\n@event_trigger('task_{name}')\ndef task_entry(**kw):\n    t = task.create(main)\n    task.wait({{t}})\n    vrec('done', '{name}')\n"
        )
        files[f"script_{name}.py"] = src
    log = []
    async with l3.Integ(files, legacy=case["legacy"]) as it:
        for name in case["order"]:
            if GlobalContextMgr.get(f"file.script_{name}") is None:
                continue
            it.records.append((0, ("call", name), {}))
            via = case["scripts"][name]["via"]
            if via == "event":
                it.fire(f"go_{name}", {})
            elif via == "task":
                it.fire(f"task_{name}", {})
            else:
                await it.hass.services.async_call("pyscript", f"svc_{name}", {}, blocking=True)
            await it.settle(2)
        for vt, a, kw in it.records:
            if a[0] == "done":
                continue
            log.append(json.loads(json.dumps(list(a), default=repr)))
        globs = {}
        load_errors = {}
        for name in case["scripts"]:
            g = GlobalContextMgr.get(f"file.script_{name}")
            if g is None:
                load_errors[name] = "failed"
            else:
                globs[name] = canon_globals({k: v for k, v in g.global_sym_table.items() if k not in ("ev_entry", "task_entry", f"svc_{name}")})
        for label in ("modules.m1", "modules.pkg", "modules.pkg.sub"):
            g = GlobalContextMgr.get(label)
            if g is not None:
                globs[label] = canon_globals(g.global_sym_table)
        errs = [e[2][-200:] for e in it.errors()]
        await it.unload()
    return {"log": log, "globals": globs, "load_errors": load_errors, "errors": errs}


class C11(ModelCheck):
    prop = PROP
    rule = (
        "2-3 script files plus the module m1 and the package pkg (with pkg.sub), all defining the global names x / "
        "counter / shared with different values; generated import forms per script (import m, from m import f, from "
        "m import f as g, from m import *, import pkg, from pkg import f, from pkg.sub import ..., relative import "
        "inside the package, a module importing the package) and per script 1-5 cross-file calls (module function "
        "changing its own globals, raising callee, callee calling back into the caller's function, callee reaching a "
        "third file) each followed by a probe of the caller's own globals; entry through an event trigger, a service or "
        "task.create; 2-6 entries in generated order. Oracle: CPython importing the same files as ordinary modules - "
        "the ordered tracer log, the non-dunder globals of every file and module afterwards (so a write that lands in "
        "the wrong file, a second module instance or a leaked star-import name is visible) must agree. Non-trivial = >= 2 "
        "files sharing a global name and >= 1 executed cross-file call; distinct by case content."
    )
    assumptions = ["CPython module semantics are the reference; scripts are imported as script_<name> modules there", "Jupyter-session context switching is not covered by this check"]

    def n_random(self, tier):
        return {"quick": 640, "thorough": 24000}[tier]

    def gen(self, R):
        return gen(R)

    def run(self, case):
        case = json.loads(json.dumps(case))
        ref = run_cpython(case)
        obs = l3.run_case(execute, case)
        exp = {"log": ref["log"], "globals": ref["globals"], "load_errors": sorted(ref["load_errors"])}
        got = {"log": obs["log"], "globals": obs["globals"], "load_errors": sorted(obs["load_errors"])}
        crossfile = any(x[0] in ("m1", "pkg", "sub") for x in ref["log"] if x)
        return {"expected": exp, "observed": got, "nontrivial": crossfile, "classes": ["legacy" if case["legacy"] else "new"],
                "detail": {"errors": obs["errors"][:3]}}

    def bucket(self, case, r):
        e, o = r["expected"], r["observed"]
        if e["load_errors"] != o["load_errors"]:
            return "load"
        if e["log"] != o["log"]:
            return "log"
        bad = sorted(k for k in set(e["globals"]) | set(o["globals"]) if e["globals"].get(k) != o["globals"].get(k))
        return "globals|" + ",".join(bad)

    shrink_key = "order"


CHECK = C11()


def run_shard(tier, i, n):
    return CHECK.run_shard(tier, i, n)


def replay(path):
    return CHECK.replay(path)


def main(tier):
    return CHECK.main(tier)
