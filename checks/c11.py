"""C11 - each file has an isolated global context; modules are shared singletons (pyscript vs CPython modules)."""

from __future__ import annotations

import builtins
import importlib
import json
import os
import shutil
import sys
import tempfile
import types

from vlib import core, l1, l3
from vlib.modelcheck import ModelCheck

PROP = "C11"
IMPORT_FORMS = ["import m1", "from m1 import bump, fail, x as m1x", "from m1 import *", "import pkg", "from pkg import deep", "from pkg.sub import subval, touch"]


def ctx_of(case, name):
    """Documented context name of a generated script: file.<name>, or apps.<name> when it is installed as an app."""
    return f"apps.script_{name}" if name in case.get("apps", []) else f"file.script_{name}"


def module_sources(case):
    m1 = [
        "x = 'm1-x'",
        "counter = 0",
        "_private = 'hidden'",
        "log = []",
        "def bump(n):",
        "    global counter",
        "    counter += n",
        "    vrec('m1', 'bump', counter, x)",
        "    return counter",
        "def fail(kind):",
        "    vrec('m1', 'fail', x)",
        "    if kind == 0:",
        "        raise ValueError('m1-fail')",
        "    return [][1]",
        "def call_back(f, arg):",
        "    vrec('m1', 'call_back', x)",
        "    r = f(arg)",
        "    vrec('m1', 'after_cb', x, counter)",
        "    return r",
        "def setx(v):",
        "    global x",
        "    x = v",
        "    return x",
        "def slow_tag(rid, secs):",
        "    task.sleep(secs)",  # with equal sleeps the first run resumes (and leaves the module) while the second is still inside
        "    vrec('m1', 'slow', x, rid)",
        "    return [x, rid]",
        "def counted(func):",
        "    def wrapper(*args, **kw):",
        "        global counter",
        "        counter += 1",
        "        vrec('m1', 'wrapped', x, counter)",
        "        return func(*args, **kw)",
        "    return wrapper",
    ]
    if case["m1_imports_pkg"]:
        m1.insert(0, "import pkg")
        m1 += ["def via_pkg(n):", "    return pkg.deep(n) + counter"]
    pkg_init = [
        "from . import sub" if case["pkg_rel"] else "x = 'pkg-x-early'",
        "x = 'pkg-x'",
        "def deep(n):",
        "    vrec('pkg', 'deep', x, n)",
        "    if n < 0:",
        "        raise KeyError('pkg-deep')",
        "    return n * 2",
    ]
    sub = [
        "x = 'sub-x'",
        "subval = 41",
        "touched = 0",
        "def touch():",
        "    global touched",
        "    touched += 1",
        "    vrec('sub', 'touch', touched, x)",
        "    return touched",
    ]
    return {"modules/m1.py": "\n".join(m1) + "\n", "modules/pkg/__init__.py": "\n".join(pkg_init) + "\n", "modules/pkg/sub.py": "\n".join(sub) + "\n"}


CALLS = {
    "bump": ("m1", "m1.bump({n})", "bump({n})"),
    "fail": ("m1", "m1.fail({k})", "fail({k})"),
    "callback": ("m1", "m1.call_back(local_fn, {n})", None),
    "setx": ("m1", "m1.setx('set-by-{f}')", None),
    "via_pkg": ("m1pkg", "m1.via_pkg({n})", None),
    "deep": ("pkg", "pkg.deep({n})", "deep({n})"),
    "touch": ("sub", None, "touch()"),
    "wrapped": ("deco", None, "wrapped_fn({n})"),
}


def script_source(name, spec, case):
    L = [f"x = '{name}-x'", "y = 0", f"shared = ['{name}']"]
    forms = spec["imports"]
    for i in forms:
        L.append(IMPORT_FORMS[i])
    have_m1 = 0 in forms
    have_pkg = 3 in forms
    names = set()
    if 1 in forms:
        names |= {"bump", "fail"}
    if 2 in forms:
        names |= {"bump", "fail", "call_back", "setx", "counted"} | ({"via_pkg"} if case["m1_imports_pkg"] else set())
    if 4 in forms:
        names.add("deep")
    if 5 in forms:
        names.add("touch")
    L += [
        "def local_fn(n):",
        "    global y",
        "    y += n",
        f"    vrec('{name}', 'local_fn', x, y)",
        "    return y",
        "def probe(tag):",
        f"    vrec('{name}', 'probe', tag, x, y, shared)",
    ]
    if have_m1 or "counted" in names:
        # a decorator defined in the module wraps a function of this file: the wrapper runs on the module's globals
        names.add("wrapped")
        L += [
            "@m1.counted" if have_m1 else "@counted",
            "def wrapped_fn(n):",
            "    global y",
            "    y += 10",
            f"    vrec('{name}', 'wrapped_fn', x, y)",
            "    return n + 1",
        ]
    if have_m1:
        # body of a trigger that is suspended inside a module function while a second run of the same trigger starts
        a_, b_ = case.get("ov_sleeps") or [0.2, 0.2]
        L += ["def ov_body(rid):", f"    r = m1.slow_tag(rid, {a_} if rid == 1 else {b_})", f"    vrec('{name}', 'ov', rid, r, x)"]
    L += [
        "def main():",
        "    global x",
        "    probe('start')",
    ]
    for ci, c in enumerate(spec["calls"]):
        kind, qual, bare = CALLS[c["fn"]]
        expr = None
        if qual and have_m1 and kind in ("m1", "m1pkg") and (kind != "m1pkg" or case["m1_imports_pkg"]):
            expr = qual
        elif qual and have_pkg and kind == "pkg":
            expr = qual
        elif bare and c["fn"] in names:
            expr = bare
        if expr is None:
            continue
        expr = expr.format(n=c["n"], k=c["n"] % 2, f=name)
        L += [
            "    try:",
            f"        r = {expr}",
            f"        vrec('{name}', 'ret', {ci}, r)",
            "    except (ValueError, IndexError, KeyError) as e:",
            f"        vrec('{name}', 'exc', {ci}, type(e).__name__)",
            f"    probe('after{ci}')",
        ]
        if c.get("mutate"):
            L += [f"    x = x + '+{ci}'", f"    shared.append({ci})"]
    L += ["    probe('end')", "    return y", ""]
    return "\n".join(L)


def gen(R):
    case = {"m1_imports_pkg": R.bool(), "pkg_rel": R.bool(), "legacy": R.bool(1, 4), "scripts": {}}
    for name in ["a", "b"] + (["c"] if R.bool(1, 3) else []):
        forms = [i for i in range(len(IMPORT_FORMS)) if R.bool(2, 5)]
        if case["pkg_rel"] is False:
            forms = [i for i in forms if i != 5]
        if 5 in forms and 3 not in forms:
            # Python executes the parent package before a submodule; pyscript loads pkg/sub.py alone - not part
            # of the property, so the package itself is always imported first here
            forms = sorted(set(forms) | {3})
        calls = []
        for _ in range(R.int(1, 5)):
            calls.append({"fn": R.choice(sorted(CALLS)), "n": R.choice([-1, 0, 1, 2, 3]), "mutate": R.bool(1, 3)})
        case["scripts"][name] = {"imports": forms, "calls": calls, "via": R.choice(["event", "task", "service"])}
    order = []
    for _ in range(R.int(2, 6)):
        order.append(R.choice(sorted(case["scripts"])))
    case["order"] = order
    # two overlapping runs of one trigger, both suspended inside a function of the shared module
    cands = [n for n in sorted(case["scripts"]) if 0 in case["scripts"][n]["imports"]]
    case["overlap"] = R.choice(cands) if cands and R.bool() else None
    case["ov_sleeps"] = R.choice([[0.2, 0.2], [0.2, 0.2], [0.2, 0.1], [0.1, 0.3]])
    # one of the files may be installed as an app (apps/<name>.py with an entry in the apps: configuration)
    case["apps"] = [R.choice(sorted(case["scripts"]))] if R.bool(1, 3) else []
    # an interactive (Jupyter-style) session context: its own globals, and the documented context-switching functions
    sess = []
    if R.bool():
        names = sorted(case["scripts"])
        for _ in range(R.int(2, 10)):
            k = R.weighted([(3, "read"), (2, "write"), (2, "def"), (3, "set"), (1, "get"), (1, "list"), (1, "deffn"), (2, "callfn")])
            if k == "read":
                sess.append(["read", R.choice(["x", "y", "sv0", "sv1", "shared"])])
            elif k == "write":
                sess.append(["write", f"w{len(sess)}"])
            elif k == "def":
                sess.append(["def", R.int(0, 1), f"v{len(sess)}"])
            elif k == "set":
                sess.append(["set", R.choice(names + ["session", "session", "nonexistent"])])
            else:
                sess.append([k])
    case["session"] = sess
    return case


def canon_globals(d):
    out = {}
    for k, v in d.items():
        if k.startswith("__") or callable(v) or type(v).__name__ in ("module", "EvalFuncVar", "EvalFunc"):
            if type(v).__name__ == "module":
                out[k] = "module:" + v.__name__
            continue
        if k.startswith("pyscript.") or k in ("vrec",):
            continue
        out[k] = json.loads(json.dumps(v, default=repr))
    return out


def run_cpython(case):
    """Reference: the same files as ordinary Python modules."""
    d = tempfile.mkdtemp(prefix="verif-c11-")
    log = []
    saved_path = list(sys.path)
    saved_mods = set(sys.modules)
    try:
        for rel, src in module_sources(case).items():
            p = os.path.join(d, rel.replace("modules/", ""))
            os.makedirs(os.path.dirname(p), exist_ok=True)
            with open(p, "w") as f:
                f.write(src)
        for name, spec in case["scripts"].items():
            with open(os.path.join(d, f"script_{name}.py"), "w") as f:
                f.write(script_source(name, spec, case))
        builtins.vrec = lambda *a: log.append(json.loads(json.dumps(list(a), default=repr)))
        sys.path.insert(0, d)
        sys.dont_write_bytecode = True
        mods = {}
        load_errors = {}
        for name in sorted(case["scripts"]):
            try:
                mods[name] = importlib.import_module(f"script_{name}")
            except Exception as e:  # noqa: BLE001
                load_errors[name] = type(e).__name__
        if case.get("overlap") and case["overlap"] in mods:
            builtins.task = types.SimpleNamespace(sleep=lambda s_: None)
            seg = len(log)
            mods[case["overlap"]].ov_body(1)
            mods[case["overlap"]].ov_body(2)
            log[seg:] = sorted(log[seg:], key=json.dumps)  # the two runs overlap: their records are compared as a set
            log.append(["overlap-end"])
        for name in case["order"]:
            if name in mods:
                log.append(["call", name])
                try:
                    mods[name].main()
                except Exception as e:  # noqa: BLE001
                    log.append(["main-raised", name, type(e).__name__])
        sess_ns = {}
        cur, cur_name = sess_ns, "session"
        for i, op in enumerate(case.get("session") or []):
            k = op[0]
            if k == "read":
                log.append(["sess", i, "val", json.loads(json.dumps(cur[op[1]], default=repr))] if op[1] in cur else ["sess", i, "NameError"])
            elif k == "write":
                cur["x"] = op[1]
            elif k == "def":
                cur[f"sv{op[1]}"] = op[2]
            elif k == "set":
                if op[1] == "session":
                    cur, cur_name = sess_ns, "session"
                elif op[1] in mods:
                    cur, cur_name = vars(mods[op[1]]), ctx_of(case, op[1])
                else:
                    log.append(["sess", i, "NameError"])
            elif k == "get":
                log.append(["sess", i, "ctx", cur_name])
            elif k == "list":
                log.append(["sess", i, "list", cur_name, sorted(ctx_of(case, n) for n in mods if ctx_of(case, n) != cur_name)])
            elif k == "deffn":
                exec("def sf():\n    return x", cur)  # noqa: S102 - the function's globals are the current namespace
            elif k == "callfn":
                if "sf" not in cur:
                    log.append(["sess", i, "NameError"])
                else:
                    try:
                        log.append(["sess", i, "val", cur["sf"]()])
                    except NameError:
                        log.append(["sess", i, "NameError"])
        globs = {name: canon_globals(vars(m)) for name, m in mods.items()}
        if case.get("session"):
            globs["session"] = canon_globals(sess_ns)
        for mn, label in (("m1", "modules.m1"), ("pkg", "modules.pkg"), ("pkg.sub", "modules.pkg.sub")):
            if mn in sys.modules:
                globs[label] = canon_globals(vars(sys.modules[mn]))
        return {"log": log, "globals": globs, "load_errors": load_errors}
    finally:
        del builtins.vrec
        if hasattr(builtins, "task"):
            del builtins.task
        sys.path[:] = saved_path
        for k in list(sys.modules):
            if k not in saved_mods:
                del sys.modules[k]
        shutil.rmtree(d, ignore_errors=True)


async def execute(case):
    from custom_components.pyscript.global_ctx import GlobalContextMgr

    files = dict(module_sources(case))
    for name, spec in case["scripts"].items():
        src = script_source(name, spec, case)
        src += (
            f"\n@event_trigger('go_{name}')\ndef ev_entry(**kw):\n    main()\n    vrec('done', '{name}')\n"
            f"\n@service\ndef svc_{name}():\n    main()\n    vrec('done', '{name}')\n"
            f"\n@event_trigger('task_{name}')\ndef task_entry(**kw):\n    t = task.create(main)\n    task.wait({{t}})\n    vrec('done', '{name}')\n"
        )
        if 0 in spec["imports"]:
            src += f"\n@event_trigger('ov_{name}')\ndef ov_entry(rid=None, **kw):\n    ov_body(rid)\n"
        files[(f"apps/script_{name}.py" if name in case.get("apps", []) else f"script_{name}.py")] = src
    log = []
    cfg = {"apps": {f"script_{n}": {} for n in case.get("apps", [])}} if case.get("apps") else None
    async with l3.Integ(files, legacy=case["legacy"], config_extra=cfg) as it:
        if case.get("overlap") and GlobalContextMgr.get(ctx_of(case, case["overlap"])) is not None:
            it.fire(f"ov_{case['overlap']}", {"rid": 1})
            it.fire(f"ov_{case['overlap']}", {"rid": 2})
            await it.sleep(1.0)
            await it.settle(2)
            it.records[:] = sorted(it.records, key=lambda r_: json.dumps(list(r_[1]), default=repr))
            it.records.append((0, ("overlap-end",), {}))
        for name in case["order"]:
            if GlobalContextMgr.get(ctx_of(case, name)) is None:
                continue
            it.records.append((0, ("call", name), {}))
            via = case["scripts"][name]["via"]
            if via == "event":
                it.fire(f"go_{name}", {})
            elif via == "task":
                it.fire(f"task_{name}", {})
            else:
                await it.hass.services.async_call("pyscript", f"svc_{name}", {}, blocking=True)
            await it.settle(2)
        sess_globs = None
        if case.get("session"):
            from custom_components.pyscript.eval import AstEval
            from custom_components.pyscript.function import Function
            from custom_components.pyscript.global_ctx import GlobalContext

            sname = GlobalContextMgr.new_name("jupyter_")
            sctx = GlobalContext(sname, global_sym_table={"__name__": sname}, manager=GlobalContextMgr)
            sctx.set_auto_start(True)
            GlobalContextMgr.set(sname, sctx)
            s_ast = AstEval(sname, sctx)
            Function.install_ast_funcs(s_ast)

            def real(n):
                return sname if n == "session" else ctx_of(case, n) if n in case["scripts"] else "file.nonexistent"

            for i, op in enumerate(case["session"]):
                k = op[0]
                if k == "read":
                    code = f"try:\n    vrec('sess', {i}, 'val', {op[1]})\nexcept NameError:\n    vrec('sess', {i}, 'NameError')"
                elif k == "write":
                    code = f"x = {op[1]!r}"
                elif k == "def":
                    code = f"sv{op[1]} = {op[2]!r}"
                elif k == "set":
                    code = f"try:\n    pyscript.set_global_ctx({real(op[1])!r})\nexcept NameError:\n    vrec('sess', {i}, 'NameError')"
                elif k == "get":
                    code = f"vrec('sess', {i}, 'ctx', pyscript.get_global_ctx())"
                elif k == "list":
                    code = f"vrec('sess', {i}, 'list', pyscript.list_global_ctx())"
                elif k == "deffn":
                    code = "def sf():\n    return x"
                else:
                    code = f"try:\n    vrec('sess', {i}, 'val', sf())\nexcept NameError:\n    vrec('sess', {i}, 'NameError')"
                s_ast.parse(code)
                await s_ast.eval()
                await it.settle(1)
            sess_globs = canon_globals({k: v for k, v in sctx.global_sym_table.items()})
            GlobalContextMgr.delete(sname)
        for vt, a, kw in it.records:
            if a[0] == "done":
                continue
            row = json.loads(json.dumps(list(a), default=repr))
            if row[0] == "sess" and case.get("session"):
                # the session's generated name is presentation
                if row[2] == "ctx":
                    row[3] = "session" if row[3] == sname else row[3]
                elif row[2] == "list":
                    names = row[3]
                    first = "session" if names[0] == sname else names[0]
                    row = row[:3] + [first, sorted(n for n in names[1:] if n.startswith(("file.script_", "apps.script_")))]
            log.append(row)
        globs = {}
        if sess_globs is not None:
            globs["session"] = sess_globs
        load_errors = {}
        for name in case["scripts"]:
            g = GlobalContextMgr.get(ctx_of(case, name))
            if g is None:
                load_errors[name] = "failed"
            else:
                globs[name] = canon_globals({k: v for k, v in g.global_sym_table.items() if k not in ("ev_entry", "task_entry", "ov_entry", f"svc_{name}")})
        for label in ("modules.m1", "modules.pkg", "modules.pkg.sub"):
            g = GlobalContextMgr.get(label)
            if g is not None:
                globs[label] = canon_globals(g.global_sym_table)
        errs = [e[2][-200:] for e in it.errors()]
        await it.unload()
    return {"log": log, "globals": globs, "load_errors": load_errors, "errors": errs}


# ------------------------------------------------------------------------------------------
# directed scenarios: one module instance however the module is reached
# ------------------------------------------------------------------------------------------

SPECIAL_FILES = {
    # two triggers import a module for the first time in the same instant (nobody imported it at load time)
    "lazy_race": {
        "modules/lazy.py": "vrec('loaded', 'lazy', pyscript.get_global_ctx())\ncounter = 0\ndef bump():\n    global counter\n    counter += 1\n    return counter\n",
        "a.py": "@event_trigger('go')\ndef fa(**kw):\n    import lazy\n    vrec('bump', 'a', lazy.bump())\n",
        "b.py": "@event_trigger('go')\ndef fb(**kw):\n    import lazy\n    vrec('bump', 'b', lazy.bump())\n",
    },
    # a package file that is not __init__.py imports a sibling relatively; a script imports the same file by its dotted name
    "rel_sibling": {
        "modules/pkg/__init__.py": "from .sub import subval\n",
        "modules/pkg/sub.py": "vrec('loaded', 'sub', pyscript.get_global_ctx())\nfrom .other import bump as obump\nsubval = obump()\n",
        "modules/pkg/other.py": "vrec('loaded', 'other', pyscript.get_global_ctx())\ncnt = 0\ndef bump():\n    global cnt\n    cnt += 1\n    return cnt\n",
        "a.py": "import pkg\nimport pkg.other as po\nvrec('bump', 'a', po.bump())\n@event_trigger('go')\ndef fa(**kw):\n    vrec('bump', 'a', po.bump())\n",
    },
    # the same one level deeper: a file of a sub-package reaches a file of the parent package with two dots
    "rel_parent": {
        "modules/pkg/__init__.py": "from .deep import leafval\n",
        "modules/pkg/deep/__init__.py": "from .leaf import leafval\n",
        "modules/pkg/deep/leaf.py": "vrec('loaded', 'leaf', pyscript.get_global_ctx())\nfrom ..other import bump as obump\nleafval = obump()\n",
        "modules/pkg/other.py": "vrec('loaded', 'other', pyscript.get_global_ctx())\ncnt = 0\ndef bump():\n    global cnt\n    cnt += 1\n    return cnt\n",
        "a.py": "import pkg\nimport pkg.other as po\nvrec('bump', 'a', po.bump())\n@event_trigger('go')\ndef fa(**kw):\n    vrec('bump', 'a', po.bump())\n",
    },
}
SPECIAL_EXPECTED = {
    "lazy_race": {"loaded": [["lazy", "modules.lazy"]], "bumps": [1, 2, 3, 4], "contexts": ["file.a", "file.b", "modules.lazy"]},
    "rel_sibling": {"loaded": [["other", "modules.pkg.other"], ["sub", "modules.pkg.sub"]], "bumps": [2, 3, 4],
                    "contexts": ["file.a", "modules.pkg", "modules.pkg.other", "modules.pkg.sub"]},
    "rel_parent": {"loaded": [["leaf", "modules.pkg.deep.leaf"], ["other", "modules.pkg.other"]], "bumps": [2, 3, 4],
                   "contexts": ["file.a", "modules.pkg", "modules.pkg.deep", "modules.pkg.deep.leaf", "modules.pkg.other"]},
}


async def execute_special(case):
    from custom_components.pyscript.global_ctx import GlobalContextMgr

    async with l3.Integ(SPECIAL_FILES[case["special"]], legacy=case["legacy"]) as it:
        for _ in range(2):
            it.fire("go", {})
            await it.sleep(1)
        recs = [list(a) for vt, a, kw in it.records]
        ctxs = sorted(c for c in GlobalContextMgr.contexts if c.split(".")[0] in ("file", "modules"))
        errs = [e[2][-200:] for e in it.errors()]
        await it.unload()
    return {"loaded": sorted([r[1], r[2]] for r in recs if r[0] == "loaded"), "bumps": sorted(r[2] for r in recs if r[0] == "bump"), "contexts": ctxs, "errors": errs}


class C11(ModelCheck):
    prop = PROP
    rule = (
        "2-3 script files (one of them installed as an app in a third of the cases) plus the module m1 and the package pkg (with pkg.sub), all defining the global names x / "
        "counter / shared with different values; generated import forms per script (import m, from m import f, from "
        "m import f as g, from m import *, import pkg, from pkg import f, from pkg.sub import ..., relative import "
        "inside the package, a module importing the package) and per script 1-5 cross-file calls (module function "
        "changing its own globals, raising callee, callee calling back into the caller's function, callee reaching a "
        "third file) each followed by a probe of the caller's own globals; entry through an event trigger, a service or "
        "task.create; optionally first two overlapping runs of one trigger that are both suspended inside a function of the shared module; 2-6 entries in generated order; then, in half of the cases, 2-10 cells of an interactive (Jupyter-style) session context: define / read / write globals, "
        "pyscript.set_global_ctx to a script, back to the session or to a missing name, get_global_ctx, list_global_ctx, a function defined in "
        "one context and called after switching to another; plus three directed scenarios in both subsystems (two triggers importing a module for the first time in the same instant; a package file other than __init__.py importing a sibling / a parent-package file relatively while a script imports the same file by its dotted name: one context, one instance, one execution). Oracle: CPython importing the same files as ordinary modules - "
        "the ordered tracer log, the non-dunder globals of every file and module afterwards (so a write that lands in "
        "the wrong file, a second module instance or a leaked star-import name is visible) must agree. Non-trivial = >= 2 "
        "files sharing a global name and >= 1 executed cross-file call; distinct by case content."
    )
    assumptions = ["CPython module semantics are the reference; scripts are imported as script_<name> modules there", "the session context is created the way jupyter_kernel_start creates it (GlobalContext + AstEval), without a kernel; the session reference is a plain dictionary namespace switched by hand"]

    def n_random(self, tier):
        return {"quick": 1280, "thorough": 24000}[tier]

    def gen(self, R):
        return gen(R)

    def exhaustive_cases(self, tier):
        return [{"special": k, "legacy": lg} for k in SPECIAL_FILES for lg in (False, True)]

    def attribute(self, case, r):
        if case.get("special") == "lazy_race" and any(f["id"] == "C11-concurrent-first-import-two-instances" for f in core.open_findings(PROP)):
            return "C11-concurrent-first-import-two-instances"
        return None

    def run(self, case):
        case = json.loads(json.dumps(case))
        if case.get("special"):
            obs = l3.run_case(execute_special, case)
            errs = obs.pop("errors")
            return {"expected": SPECIAL_EXPECTED[case["special"]], "observed": obs, "nontrivial": True,
                    "classes": ["legacy" if case["legacy"] else "new", "special-" + case["special"]], "detail": {"errors": errs[:3]}}
        ref = run_cpython(case)
        obs = l3.run_case(execute, case)
        exp = {"log": ref["log"], "globals": ref["globals"], "load_errors": sorted(ref["load_errors"])}
        got = {"log": obs["log"], "globals": obs["globals"], "load_errors": sorted(obs["load_errors"])}
        crossfile = any(x[0] in ("m1", "pkg", "sub") for x in ref["log"] if x)
        return {"expected": exp, "observed": got, "nontrivial": crossfile, "classes": ["legacy" if case["legacy"] else "new"] + (["app-context"] if case.get("apps") and not ref["load_errors"] else []) + (["session-cells"] if case.get("session") else []),
                "detail": {"errors": obs["errors"][:3]}}

    def bucket(self, case, r):
        e, o = r["expected"], r["observed"]
        if case.get("special"):
            return "special|" + case["special"] + "|" + ",".join(k for k in e if e[k] != o.get(k))
        if e["load_errors"] != o["load_errors"]:
            return "load"
        if e["log"] != o["log"]:
            return "log"
        bad = sorted(k for k in set(e["globals"]) | set(o["globals"]) if e["globals"].get(k) != o["globals"].get(k))
        return "globals|" + ",".join(bad)

    shrink_key = "order"


CHECK = C11()


def run_shard(tier, i, n):
    return CHECK.run_shard(tier, i, n)


def replay(path):
    return CHECK.replay(path)


def main(tier):
    return CHECK.main(tier)
