"""C08 - event / MQTT / webhook triggers deliver each message exactly once; event.fire round trip; contexts."""

from __future__ import annotations

import json
from types import SimpleNamespace
from unittest.mock import patch

from vlib import core, l3
from vlib.modelcheck import ModelCheck

PROP = "C08"
TYPES = ["ev_a", "ev_b", "ev_c"]
FILTERS = [
    None,
    ("n > 3", lambda d: d["n"] > 3),
    ("n % 2 == 0 and flag", lambda d: d["n"] % 2 == 0 and d["flag"]),
    ("name == 'x' or n == 0", lambda d: d["name"] == "x" or d["n"] == 0),
    ("event_type == 'ev_a' and trigger_type == 'event'", lambda d: d["event_type"] == "ev_a"),
    ("obj['k'] == 1", lambda d: d["obj"]["k"] == 1),
    ("len(items) > 1", lambda d: len(d["items"]) > 1),
]


def gen_payload(R):
    d = {}
    if R.bool(5, 6):
        d["n"] = R.int(0, 7)
    if R.bool(2, 3):
        d["flag"] = R.bool()
    if R.bool(1, 2):
        d["name"] = R.choice(["x", "y", ""])
    if R.bool(1, 3):
        d["obj"] = R.choice([{"k": 1}, {"k": 2}, {}, {"k": [1, 2]}])
    if R.bool(1, 3):
        d["items"] = R.choice([[], [1], [1, "a", None], [[1], {"z": 2.5}]])
    if R.bool(1, 5):
        d["f"] = R.choice([1.5, None, -0.0])
    return d


def gen(R):
    kind = R.weighted([(6, "event"), (2, "mqtt"), (2, "webhook")])
    legacy = R.bool()
    if kind == "event":
        funcs = []
        for _ in range(R.int(1, 3)):
            decs = []
            for _ in range(R.weighted([(3, 1), (1, 2)])):
                decs.append({"type": R.choice(TYPES), "filter": R.int(0, len(FILTERS) - 1), "kwargs": R.choice([None, None, {"extra": 1}, {"n": "over"}])})
            funcs.append({"decs": decs, "sleep": R.choice([0, 0, 5, 30]), "emit": R.bool(1, 2),
                          "fire_extra": R.choice(["", "", ", context='kitchen'", ", context=None, level=3", ", value=[1, 2], trigger_type='x'", ", context={'a': 1}"])})
        ops = []
        for _ in range(R.int(1, 10)):
            gap = R.choice([0.5, 2.0, 12.0, 40.0])
            n = R.weighted([(4, 1), (2, 3), (1, 8), (1, 20)])
            burst = [{"type": R.choice(TYPES + ["ev_other"]), "data": gen_payload(R), "ctx": R.bool(3, 4)} for _ in range(n)]
            ops.append({"gap": gap, "burst": burst})
        return {"kind": "event", "legacy": legacy, "funcs": funcs, "ops": ops}
    if kind == "mqtt":
        filt = R.choice([None, "payload == 'on'", "payload_obj['v'] > 1", "qos == 0 and topic.startswith('home/')"])
        ops = []
        for _ in range(R.int(1, 8)):
            n = R.weighted([(3, 1), (2, 4)])
            ops.append({"gap": R.choice([0.5, 3.0]), "burst": [{"topic": R.choice(["home/a", "home/b", "x/a"]), "payload": R.choice(["on", "off", '{"v": 2}', '{"v": 1}', "[1", ""]), "qos": 0, "retain": R.bool()} for _ in range(n)]})
        return {"kind": "mqtt", "legacy": legacy, "topic": R.choice(["home/a", "home/+", "home/#"]), "filter": filt, "kwargs": R.choice([None, {"extra": 2}]), "ops": ops}
    filt = R.choice([None, "payload['n'] > 1", "webhook_id == 'hook1' and payload.get('a') == 'b'"])
    ops = []
    for _ in range(R.int(1, 8)):
        n = R.weighted([(3, 1), (2, 4)])
        ops.append({"gap": R.choice([0.5, 3.0]), "burst": [{"id": R.choice(["hook1", "hook1", "hook2"]), "json": R.bool(), "payload": R.choice([{"n": 2}, {"n": 1, "a": "b"}, {"a": "b"}, {}])} for _ in range(n)]})
    # before one of the steps a second listener of the same webhook id appears for a while (task.wait_until in another
    # function, with a time-out): when it stops, the function's own trigger must keep receiving requests
    return {"kind": "webhook", "legacy": legacy, "filter": filt, "kwargs": R.choice([None, {"extra": 3}]), "ops": ops,
            "arm_at": R.choice([None, 0, 0, 1, 2])}


def script(case):
    L = []
    if case["kind"] == "event":
        for fi, f in enumerate(case["funcs"]):
            for di, d in enumerate(f["decs"]):
                args = [repr(d["type"])]
                if FILTERS[d["filter"]] is not None:
                    args.append(repr(FILTERS[d["filter"]][0]))
                kw = {"dec": di}
                kw.update(d["kwargs"] or {})
                L.append(f"@event_trigger({', '.join(args)}, kwargs={kw!r})")
            L += [
                f"def f{fi}(context=None, **kw):",
                f"    vrec('start', 'f{fi}', kw, vtask(), context.id if context else None)",
            ]
            if f["emit"]:
                L += [
                    f"    event.fire('out_ev', src='f{fi}', seq=kw.get('seq'), payload=kw{f['fire_extra']})",
                    f"    state.set('pyscript.out_f{fi}', kw.get('seq'), who='f{fi}')",
                    f"    service.call('vtest', 'rec', src='f{fi}', seq=kw.get('seq'))",
                ]
            L += ["    mine = kw.get('seq')"]
            if f["sleep"]:
                L += [f"    task.sleep({f['sleep']})"]
            # after the suspension the run still has its own arguments, locals, task and context
            L += [f"    vrec('end', 'f{fi}', kw, vtask(), context.id if context else None, mine)"]
            if f["emit"] and f["sleep"]:
                L += [f"    event.fire('out_ev2', src='f{fi}', seq=mine)"]
            L += [""]
    elif case["kind"] == "mqtt":
        args = [repr(case["topic"])] + ([repr(case["filter"])] if case["filter"] else [])
        if case["kwargs"]:
            args.append(f"kwargs={case['kwargs']!r}")
        L += [f"@mqtt_trigger({', '.join(args)})", "def m(**kw):", "    vrec('start', 'm', kw, vtask(), None)", ""]
    else:
        args = ["'hook1'"] + ([repr(case["filter"])] if case["filter"] else [])
        if case["kwargs"]:
            args.append(f"kwargs={case['kwargs']!r}")
        L += [f"@webhook_trigger({', '.join(args)})", "def w(**kw):", "    vrec('start', 'w', kw, vtask(), None)", "",
              "@event_trigger('arm')", "def waiter(**kw):", "    r = task.wait_until(webhook_trigger='hook1', timeout=1.2)", "    vrec('waited', r.get('trigger_type'))", ""]
    return "\n".join(L)


def topic_match(sub, topic):
    sp, tp = sub.split("/"), topic.split("/")
    for i, s in enumerate(sp):
        if s == "#":
            return True
        if i >= len(tp):
            return False
        if s != "+" and s != tp[i]:
            return False
    return len(sp) == len(tp)


class FakeRequest:
    def __init__(self, payload, is_json):
        self.headers = {"Content-Type": "application/json" if is_json else "application/x-www-form-urlencoded"}
        self._payload = payload

    async def json(self):
        return dict(self._payload)

    async def post(self):
        payload = {k: str(v) for k, v in self._payload.items()}

        class MD(dict):
            def getone(self, k):
                return self[k]

        return MD(payload)


async def execute(case):
    import asyncio

    from homeassistant.core import Context

    subs = []  # (topic, handler)
    hooks = {}

    async def fake_subscribe(hass, topic, handler, qos=0, encoding="utf-8"):
        ent = (topic, handler)
        subs.append(ent)

        def unsub():
            if ent in subs:
                subs.remove(ent)

        return unsub

    def fake_register(hass, domain, name, webhook_id, handler, local_only=False, allowed_methods=None):
        if webhook_id in hooks:
            raise ValueError("Handler is already defined!")
        hooks[webhook_id] = handler

    def fake_unregister(hass, webhook_id):
        hooks.pop(webhook_id, None)

    out_events, svc_calls, state_ctx, out_events2 = [], [], [], []
    with patch("homeassistant.components.mqtt.async_subscribe", fake_subscribe), patch(
        "homeassistant.components.webhook.async_register", fake_register
    ), patch("homeassistant.components.webhook.async_unregister", fake_unregister):
        async with l3.Integ({"hello.py": script(case)}, legacy=case["legacy"], autostart=False) as it:
            from custom_components.pyscript.function import Function

            Function.functions["vtask"] = lambda: id(asyncio.current_task())

            async def rec_service(call):
                svc_calls.append((dict(call.data), call.context.parent_id))

            it.hass.services.async_register("vtest", "rec", rec_service)
            it.hass.bus.async_listen("out_ev", lambda ev: out_events.append((dict(ev.data), ev.context.parent_id)))
            it.hass.bus.async_listen("out_ev2", lambda ev: out_events2.append((dict(ev.data), ev.context.parent_id)))
            it.hass.bus.async_listen("state_changed", lambda ev: state_ctx.append((ev.data["entity_id"], ev.data["new_state"].state if ev.data["new_state"] else None, ev.context.parent_id)))
            await it.start()
            t0 = it.vt()
            fired = []  # (rel time, message dict, context id)
            seq = 0
            t = 0.0
            for si, step in enumerate(case["ops"]):
                t += step["gap"]
                await it.sleep_until(t0 + t)
                if case.get("arm_at") == si:
                    it.fire("arm", {})
                    await it.settle(1)
                for msg in step["burst"]:
                    seq += 1
                    if case["kind"] == "event":
                        data = dict(msg["data"])
                        data["seq"] = seq
                        ctx = Context() if msg["ctx"] else None
                        it.fire(msg["type"], data, context=ctx)
                        fired.append((t, {"type": msg["type"], "data": data}, ctx.id if ctx else None))
                    elif case["kind"] == "mqtt":
                        m = SimpleNamespace(topic=msg["topic"], payload=msg["payload"], qos=msg["qos"], retain=msg["retain"])
                        for tp, h in list(subs):
                            if topic_match(tp, msg["topic"]):
                                await h(m)
                        fired.append((t, msg, None))
                    else:
                        h = hooks.get(msg["id"])
                        if h is not None:
                            await h(it.hass, msg["id"], FakeRequest(msg["payload"], msg["json"]))
                        fired.append((t, msg, None))
                await it.settle(1)
            await it.sleep_until(t0 + t + 35.0)
            recs = [(round(vt - t0, 3), a) for vt, a, kw in it.records]
            errs = [e[2][-200:] for e in it.errors()]
            n_subs, n_hooks = len(subs), len(hooks)
            await it.unload()
            leftover = (len(subs), len(hooks))
    return {"recs": recs, "fired": fired, "out_events": out_events, "svc_calls": svc_calls, "state_ctx": state_ctx, "out_events2": out_events2, "errors": errs,
            "n_subs": n_subs, "n_hooks": n_hooks, "leftover": leftover}


def clean_kw(kw):
    return {k: v for k, v in kw.items() if k != "context"}


def model_and_compare(case, r):
    problems = []
    exp_summary, obs_summary = {}, {}
    starts = {}
    for rel, a in r["recs"]:
        if a[0] == "start":
            starts.setdefault((a[1], a[2].get("dec")), []).append((rel, clean_kw(a[2]), a[3], a[4]))
    if case["kind"] == "event":
        ctx_of_seq = {}
        for fi, f in enumerate(case["funcs"]):
            for di, d in enumerate(f["decs"]):
                exp = []
                for rel, msg, ctxid in r["fired"]:
                    if msg["type"] != d["type"]:
                        continue
                    ns = {"trigger_type": "event", "event_type": msg["type"]}
                    ns.update(msg["data"])
                    ok = True
                    flt = FILTERS[d["filter"]]
                    if flt is not None:
                        try:
                            ok = bool(flt[1](ns))
                        except Exception:  # noqa: BLE001 - a raising filter is a false one
                            ok = False
                    if ok:
                        kw = dict(ns)
                        kw["dec"] = di
                        kw.update(d["kwargs"] or {})
                        exp.append((round(rel, 3), kw, ctxid))
                obs = starts.get((f"f{fi}", di), [])
                exp_summary[f"f{fi}.{di}"] = [[e[0], e[1]] for e in exp]
                obs_summary[f"f{fi}.{di}"] = [[o[0], o[1]] for o in obs]
                if len(exp) != len(obs):
                    problems.append("count")
                    continue
                for e, o in zip(exp, obs):
                    if e[1] != o[1]:
                        problems.append("kwargs-or-order")
                        break
                    if abs(e[0] - o[0]) > 0.01:
                        problems.append("start-delayed")
                        break
                    # the run's context is a child of the occurrence's context (when the occurrence has one)
                # independent tasks
                tids = [o[2] for o in obs]
                # task ids may be reused after a task ended; only flag duplicates among runs that overlap in time
        # emitted events / states / service calls carry the parent context of their occurrence
        seq_ctx = {msg["data"]["seq"]: ctxid for rel, msg, ctxid in r["fired"]}
        run_ctx_by = {}
        for key, lst in starts.items():
            for rel, kw, tid, run_ctx in lst:
                run_ctx_by[(key[0], kw.get("seq"))] = run_ctx
        for data, parent in r["out_events"]:
            exp_payload = None
            want = seq_ctx.get(data.get("seq"))
            # round trip: the event carries exactly the given parameters
            fn_spec = case["funcs"][int(str(data.get("src", "f0"))[1:])] if str(data.get("src", "")).startswith("f") else None
            extra_exp = eval("dict(" + fn_spec["fire_extra"].lstrip(", ") + ")") if fn_spec and fn_spec["fire_extra"] else {}  # noqa: S307 - fixed strings
            if set(data.keys()) != {"src", "seq", "payload"} | set(extra_exp):
                problems.append("event.fire-params")
            elif any(data[k] != v for k, v in extra_exp.items()):
                problems.append("event.fire-values")
            else:
                want_kw = [kw for key, lst in starts.items() if key[0] == data["src"] for rel, kw, tid, rc in lst if kw.get("seq") == data["seq"]]
                if not want_kw or all(data["payload"] != clean_kw(w) for w in want_kw):
                    problems.append("event.fire-values")
            if want is not None and parent != want:
                problems.append("context-parent-event")
        for data, parent in r["svc_calls"]:
            want = seq_ctx.get(data.get("seq"))
            if set(data.keys()) != {"src", "seq"}:
                problems.append("service-params")
            if want is not None and parent != want:
                problems.append("context-parent-service")
        for ent, val, parent in r["state_ctx"]:
            if ent.startswith("pyscript.out_f") and val is not None:
                want = seq_ctx.get(int(val)) if str(val).isdigit() else None
                if want is not None and parent != want:
                    problems.append("context-parent-state")
        # each emitting run emitted exactly once
        n_emit_expected = sum(len(v) for k, v in exp_summary.items() if case["funcs"][int(k[1:].split(".")[0])]["emit"])
        if len(r["out_events"]) != n_emit_expected or len(r["svc_calls"]) != n_emit_expected:
            problems.append("emit-count")
        ends = [a for rel, a in r["recs"] if a[0] == "end"]
        if len(ends) != sum(len(v) for v in exp_summary.values()) and "count" not in problems:
            problems.append("run-not-finished")
        # every run ends with the arguments, local, task and context it started with (runs that overlap in time - a later
        # occurrence arrives while an earlier run sleeps - never share interpreter state)
        key_of = lambda kw, tid, cid: json.dumps([clean_kw(kw), tid, cid], sort_keys=True, default=str)
        started = sorted((a[1], key_of(a[2], a[3], a[4])) for rel, a in r["recs"] if a[0] == "start")
        ended = sorted((a[1], key_of(a[2], a[3], a[4])) for rel, a in r["recs"] if a[0] == "end")
        if started != ended and "count" not in problems and "run-not-finished" not in problems:
            problems.append("run-state-mixed-up")
        if any(a[5] != a[2].get("seq") for rel, a in r["recs"] if a[0] == "end"):
            problems.append("run-local-mixed-up")
        for data, parent in r["out_events2"]:
            want = seq_ctx.get(data.get("seq"))
            if want is not None and parent != want:
                problems.append("context-parent-event-after-sleep")
    else:
        exp = []
        for rel, msg, _ in r["fired"]:
            if case["kind"] == "mqtt":
                if not topic_match(case["topic"], msg["topic"]):
                    continue
                ns = {"trigger_type": "mqtt", "topic": msg["topic"], "payload": msg["payload"], "qos": msg["qos"], "retain": msg["retain"]}
                try:
                    ns["payload_obj"] = json.loads(msg["payload"])
                except ValueError:
                    pass
            else:
                if msg["id"] != "hook1":
                    continue
                payload = dict(msg["payload"]) if msg["json"] else {k: str(v) for k, v in msg["payload"].items()}
                ns = {"trigger_type": "webhook", "webhook_id": msg["id"], "payload": payload}
            ok = True
            if case["filter"]:
                try:
                    ok = bool(eval(case["filter"], {"__builtins__": {}}, dict(ns)))  # noqa: S307 - fixed strings above
                except Exception:  # noqa: BLE001
                    ok = False
            if ok:
                kw = dict(ns)
                kw.update(case["kwargs"] or {})
                exp.append([round(rel, 3), kw])
        name = "m" if case["kind"] == "mqtt" else "w"
        obs = [[o[0], o[1]] for o in starts.get((name, None), [])]
        exp_summary[name], obs_summary[name] = exp, obs
        if len(exp) != len(obs):
            problems.append("count")
        elif any(e[1] != o[1] for e, o in zip(exp, obs)):
            problems.append("kwargs-or-order")
        if case["kind"] == "mqtt" and r["n_subs"] != 1:
            problems.append("subscriptions")
        if case["kind"] == "webhook" and r["n_hooks"] != 1:
            problems.append("registrations")
        if r["leftover"] != (0, 0):
            problems.append("leftover-subscription")
    return exp_summary, obs_summary, sorted(set(problems))


class C08(ModelCheck):
    prop = PROP
    rule = (
        "event triggers: 1-3 functions x 1-2 @event_trigger decorators (3 event types, optional filter expression over "
        "payload keys incl. nested objects and missing keys, kwargs incl. overriding a payload key), functions that emit "
        "an event, a state write and a service call and optionally sleep 5-30 virtual seconds; histories of bursts (1-20 "
        "events fired back-to-back, with and without a Context) separated by 0.5-40 s; MQTT and webhook triggers driven "
        "through recording fakes of mqtt.async_subscribe / webhook.async_register (topic wildcards, JSON and form "
        "payloads, filters, kwargs). Oracle per decorator: the ordered list of runs equals the matching messages (filter "
        "evaluated by CPython on the payload), kwargs equal {trigger_type, event_type, **data, **kwargs}, each run starts "
        "at the fire instant even while earlier runs sleep, every emitted event / state change / service call carries "
        "exactly the given parameters and a context whose parent is the occurrence's context; subscriptions are single "
        "and gone after unload. Non-trivial = a burst of >= 3 matching events or an event arriving while an earlier run "
        "sleeps; distinct by case content."
    )
    assumptions = ["delivery inside Home Assistant (bus, MQTT client, HTTP view) is trusted; fakes replace only that boundary", "payload keys avoid reserved trigger keyword names"]

    def n_random(self, tier):
        return {"quick": 1600, "thorough": 30000}[tier]

    def gen(self, R):
        return gen(R)

    def run(self, case):
        case = json.loads(json.dumps(case))
        r = l3.run_case(execute, case)
        exp, obs, problems = model_and_compare(case, r)
        nt = False
        if case["kind"] == "event":
            nt = any(len(v) >= 3 for v in exp.values()) or any(f["sleep"] for f in case["funcs"])
        else:
            nt = any(len(v) >= 2 for v in exp.values())
        return {"expected": {"runs": exp, "problems": []}, "observed": {"runs": obs, "problems": problems}, "nontrivial": nt,
                "classes": [case["kind"], "legacy" if case["legacy"] else "new"], "detail": {"script": script(case), "errors": r["errors"][:3]}}

    def mismatch(self, r):
        return bool(r["observed"]["problems"])

    def bucket(self, case, r):
        return case["kind"] + "|" + ("legacy" if case["legacy"] else "new") + "|" + ",".join(r["observed"]["problems"])


CHECK = C08()


def run_shard(tier, i, n):
    return CHECK.run_shard(tier, i, n)


def replay(path):
    return CHECK.replay(path)


def main(tier):
    return CHECK.main(tier)
