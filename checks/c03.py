"""C03 - functions, scoping, closures, classes: pyscript vs CPython."""

from __future__ import annotations

import ast
import asyncio
import copy
import itertools

from vlib import core, l1
from vlib.diffcheck import DiffCheck, node_types

PROP = "C03"
RULE = (
    "(a) exhaustive argument-binding table: every signature with <= 2 positional-only, <= 2 normal, optional *args, "
    "<= 2 keyword-only, optional **kwargs parameters and defaults on every suffix/subset, each called with every call "
    "shape of 0-4 positional arguments x keyword sets of <= 2 names drawn from {parameter names, an unknown name, a "
    "reserved trigger keyword} x optional * and ** unpacking; (b) Hypothesis-generated name-resolution programs: nested "
    "defs to depth 4 over 3 names with assign / read / del / augmented assign / global / nonlocal / for / with-as / "
    "except-as / comprehension / class body / nested def, closures captured in loops; (c) generated multi-function "
    "programs: recursion, defaults and decorator arguments with tracers, user decorators with and without arguments, "
    "small classes (class attributes, __init__, methods, inheritance, bound methods), @pyscript_compile functions. "
    "Compared with CPython: results, ordered tracer log, exception type (NameError and UnboundLocalError are one "
    "class). The oracle drops unexpected reserved trigger keywords from the CPython call when the callee has no "
    "**kwargs (the one documented deviation). Non-trivial = an executed call that crosses a scope boundary; distinct by source."
)

RESERVED = {
    "context", "event_type", "old_value", "payload", "payload_obj", "qos", "retain", "topic", "trigger_type",
    "trigger_time", "var_name", "value", "webhook_id",
}


def make_inject(tr):
    class CMV:
        def __init__(self, v):
            self.v = v

        def __enter__(self):
            return self.v

        def __exit__(self, *a):
            return False

    def pyscript_compile(f=None):
        if f is None:
            return lambda g: g
        return f

    return {"CMV": CMV}


# CPython needs pyscript_compile to be defined (identity); pyscript treats it as a keyword-like decorator.
CPY_PRELUDE = "def pyscript_compile(f=None):\n    return f if f is not None else (lambda g: g)\n"


class DropReserved(ast.NodeTransformer):
    """The documented deviation, applied to the reference: calls by name to a module-level function without
    **kwargs lose unexpected keywords that are reserved trigger keyword names."""

    def __init__(self, tree):
        self.sigs = {}
        for n in tree.body:
            if isinstance(n, ast.FunctionDef):
                a = n.args
                names = {x.arg for x in a.posonlyargs + a.args + a.kwonlyargs}
                self.sigs[n.name] = (names, a.kwarg is not None, {x.arg for x in a.posonlyargs})

    def visit_Call(self, node):
        self.generic_visit(node)
        if isinstance(node.func, ast.Name) and node.func.id in self.sigs:
            names, has_kw, posonly = self.sigs[node.func.id]
            if not has_kw:
                kws = []
                for k in node.keywords:
                    if k.arg is not None and k.arg in RESERVED and k.arg not in (names - posonly):
                        continue
                    if k.arg is None and isinstance(k.value, ast.Dict):
                        keys, vals = [], []
                        for kk, vv in zip(k.value.keys, k.value.values):
                            if isinstance(kk, ast.Constant) and kk.value in RESERVED and kk.value not in (names - posonly):
                                continue
                            keys.append(kk)
                            vals.append(vv)
                        k = ast.keyword(arg=None, value=ast.Dict(keys=keys, values=vals))
                    kws.append(k)
                node.keywords = kws
        return node


def cpython_variant(src):
    tree = ast.parse(src)
    tree = DropReserved(tree).visit(tree)
    ast.fix_missing_locations(tree)
    return CPY_PRELUDE + ast.unparse(tree)


class C03Check(DiffCheck):
    async def both(self, src):
        t1 = l1.Tracer()
        inj1 = t1.injected()
        inj1.update(make_inject(t1))
        try:
            ref_src = cpython_variant(src)
        except SyntaxError:
            return None, None, False
        try:
            g1, e1, ok = l1.run_cpython(ref_src, inj1)
        except l1.CaseTimeout:
            return None, None, False
        if not ok:
            return None, None, False
        if g1 is not None:
            g1.pop("pyscript_compile", None)
        t2 = l1.Tracer()
        inj2 = t2.injected()
        inj2.update(make_inject(t2))
        try:
            g2, e2, _ = await l1.run_pyscript(src, inj2)
        except l1.CaseTimeout:
            o1 = self.observe(g1, e1, t1, inj1)
            o2 = dict(o1)
            o2["exc"] = "<hang>"
            return o1, o2, True
        return self.observe(g1, e1, t1, inj1), self.observe(g2, e2, t2, inj2), True


# --------------------------------------------------------------------------------------
# (a) binding table
# --------------------------------------------------------------------------------------


def signatures():
    out = []
    for npo, nn, va, nko, kw in itertools.product(range(3), range(3), (0, 1), range(3), (0, 1)):
        pos = [f"p{i}" for i in range(npo)] + [f"a{i}" for i in range(nn)]
        for ndef in range(len(pos) + 1):
            for kodef in itertools.product((0, 1), repeat=nko):
                parts = []
                for i, nme in enumerate(pos):
                    d = f"='d{nme}'" if i >= len(pos) - ndef else ""
                    parts.append(nme + d)
                    if i == npo - 1:
                        parts.append("/")
                if va:
                    parts.append("*va")
                elif nko:
                    parts.append("*")
                for i in range(nko):
                    parts.append(f"k{i}" + (f"='dk{i}'" if kodef[i] else ""))
                if kw:
                    parts.append("**kw")
                ret = pos + (["va"] if va else []) + [f"k{i}" for i in range(nko)] + (["sorted(kw.items())"] if kw else [])
                out.append((", ".join(parts), ret, pos, [f"k{i}" for i in range(nko)], npo))
    return out


def call_shapes(pos, kos, npo):
    """Call argument texts for one signature."""
    names = []
    if pos:
        names.append(pos[0])  # first positional (positional-only if npo > 0)
    if len(pos) > npo:
        names.append(pos[-1])
    if kos:
        names.append(kos[0])
    names += ["zz", "value"]
    names = list(dict.fromkeys(names))
    shapes = []
    kwsets = [()] + [(n,) for n in names] + list(itertools.combinations(names, 2))
    for npos in range(0, 5):
        for ks in kwsets:
            base_pos = [str(i + 1) for i in range(npos)]
            kws = [f"{k}='{k}v'" for k in ks]
            shapes.append(", ".join(base_pos + kws))
            if npos >= 1:
                # last positional through * unpacking
                shapes.append(", ".join(base_pos[:-1] + [f"*[{base_pos[-1]}]"] + kws))
            if ks:
                shapes.append(", ".join(base_pos + kws[:-1] + ["**{" + repr(ks[-1]) + ": 'u'}"]))
                # a mapping first and the same name again as an explicit keyword after it
                # (not for the reserved trigger keywords: the documented removal of those leaves nothing to collide)
                if ks[0] not in RESERVED:
                    shapes.append(", ".join(base_pos + ["**{" + repr(ks[0]) + ": 'u'}"] + [f"{ks[0]}='dup'"] + kws[1:]))
    return shapes


def binding_programs():
    progs = []
    for sig, ret, pos, kos, npo in signatures():
        lines = [f"def f({sig}):", f"    return ({', '.join(ret)}{',' if ret else ''})", "R = []"]
        for sh in call_shapes(pos, kos, npo):
            lines += ["try:", f"    R.append(f({sh}))", "except Exception as e:", "    R.append(type(e).__name__)"]
        progs.append(("binding", "\n".join(lines)))
    # the same table for every third signature with a function that wraps its parameters in closure cells (it contains a
    # nested function reading them), None among the defaults and None / falsy values among the arguments
    for si, (sig, ret, pos, kos, npo) in enumerate(signatures()):
        if si % 3 or not ret:
            continue
        sig_n = sig.replace("='d" + pos[-1] + "'", "=None") if pos else sig
        if kos:
            sig_n = sig_n.replace("='dk0'", "=None")
        lines = [f"def f({sig_n}):", "    def inner():", f"        return ({', '.join(ret)},)", "    return inner()", "R = []"]
        for sh in call_shapes(pos, kos, npo):
            sh_n = sh.replace("2", "None", 1).replace("3", "0", 1).replace("'zzv'", "None")
            if kos:
                sh_n = sh_n.replace(f"'{kos[0]}v'", "None")
            lines += ["try:", f"    R.append(f({sh_n}))", "except Exception as e:", "    R.append(type(e).__name__)"]
        progs.append(("binding-cells", "\n".join(lines)))
    return progs


# --------------------------------------------------------------------------------------
# (b) name-resolution programs
# --------------------------------------------------------------------------------------

NAMES = ["a", "b", "c"]


class ScopeGen:
    def __init__(self, R, max_depth):
        self.R = R
        self.max_depth = max_depth
        self.n = 0

    def tag(self):
        self.n += 1
        return f"t{self.n}"

    def read(self, name, ind):
        pad = "    " * ind
        t = self.tag()
        return [f"{pad}try:", f"{pad}    T('{t}', {name})", f"{pad}except NameError:", f"{pad}    T('{t}', 'NE')"]

    def func_body(self, depth, ind, fname, enclosing_bound, is_module=False, hidden=frozenset()):
        """enclosing_bound: names bound by parameter/assignment in the immediately enclosing function (candidates
        for nonlocal).  hidden: names an enclosing function declared global/nonlocal - not used here at all (open
        findings C03-nested-global-decl / C03-nonlocal-binding-forms describe what happens otherwise)."""
        R = self.R
        pad = "    " * ind
        L = []
        decl_global, decl_nonlocal = set(), set()
        NAMES = [n for n in ["a", "b", "c"] if n not in hidden] or ["z"]
        if not is_module:
            for nm in NAMES:
                r = R.int(0, 9)
                if r == 0:
                    decl_global.add(nm)
                elif r == 1 and nm in enclosing_bound:
                    decl_nonlocal.add(nm)
            if decl_global:
                L.append(f"{pad}global {', '.join(sorted(decl_global))}")
            if decl_nonlocal:
                L.append(f"{pad}nonlocal {', '.join(sorted(decl_nonlocal))}")
        bound_here = set()
        strong = set(getattr(self, "_params", set()))
        self._params = set()
        nstmts = R.int(2, 6)
        inner = []
        for _ in range(nstmts):
            nm = R.choice(NAMES)
            t = self.tag()
            k = R.weighted(
                [(5, "read"), (4, "assign"), (2, "aug"), (1, "del"), (1, "for"), (1, "with"), (1, "except"), (2, "comp"),
                 (1, "comp_read"), (3 if depth < self.max_depth else 0, "def"), (1 if depth < self.max_depth else 0, "class"),
                 (1, "loopclosure" if depth < self.max_depth else "read"), (1, "walrus")]
            )
            declared = nm in decl_global or nm in decl_nonlocal
            if k == "read":
                L += self.read(nm, ind)
            elif k == "assign":
                L.append(f"{pad}{nm} = '{fname}{nm}{t}'")
                bound_here.add(nm)
                strong.add(nm)
            elif k == "aug":
                L += [f"{pad}try:", f"{pad}    {nm} += '+'", f"{pad}except NameError:", f"{pad}    T('{t}', 'NEaug')"]
                bound_here.add(nm)
            elif k == "del":
                L += [f"{pad}try:", f"{pad}    del {nm}", f"{pad}except NameError:", f"{pad}    T('{t}', 'NEdel')"]
                bound_here.add(nm)
            elif k == "for":
                L += [f"{pad}for {nm} in ['{t}x', '{t}y']:", f"{pad}    pass"]
                bound_here.add(nm)
            elif k == "with":
                L += [f"{pad}with CMV('{t}w') as {nm}:", f"{pad}    pass"]
                bound_here.add(nm)
            elif k == "except":
                if declared:
                    L += self.read(nm, ind)
                else:
                    L += [f"{pad}try:", f"{pad}    raise ValueError('{t}')", f"{pad}except ValueError as {nm}:", f"{pad}    T('{t}', type({nm}).__name__)"]
                    bound_here.add(nm)
            elif k == "comp":
                other = R.choice(NAMES)
                # inside functions the comprehension variable gets its own name (open finding
                # C03-comprehension-var-function-local); at module level it may shadow a, b or c
                cv = nm if is_module else "q"
                L += [f"{pad}try:", f"{pad}    T('{t}', [({cv}, {other}) for {cv} in 'xy'])", f"{pad}except NameError:", f"{pad}    T('{t}', 'NEc')"]
            elif k == "comp_read":
                L += [f"{pad}try:", f"{pad}    T('{t}', [{nm} for q in 'x'])", f"{pad}except NameError:", f"{pad}    T('{t}', 'NEc')"]
            elif k == "walrus":
                if declared:
                    L += self.read(nm, ind)
                else:
                    L += [f"{pad}T('{t}', ({nm} := '{fname}w{t}'))"]
                    bound_here.add(nm)
            elif k == "def":
                gname = f"{fname}_{t}"
                eb = set()
                if not is_module:
                    eb = {x for x in strong if x not in decl_global and x not in decl_nonlocal}
                params = R.choice(["", "", nm, f"{nm}='{t}d'", f"{nm}=None"])
                L.append(f"{pad}def {gname}({params}):")
                self._params = {params.split("=")[0]} if params else set()
                body = self.func_body(depth + 1, ind + 1, gname, eb, hidden=frozenset(hidden | decl_global | decl_nonlocal))
                L += body
                L.append(f"{pad}    return '{gname}r'")
                call = f"{gname}({R.choice([repr(t + 'arg'), repr(t + 'arg'), 'None'])})" if params and "=" not in params else f"{gname}()"
                inner.append((gname, call))
                if R.bool(2, 3):
                    L += [f"{pad}try:", f"{pad}    T('{t}c', {call})", f"{pad}except NameError:", f"{pad}    T('{t}c', 'NEcall')"]
            elif k == "class":
                if declared:
                    # open finding C03-class-body-under-global: not generated
                    L += self.read(nm, ind)
                    continue
                cname = f"K{t}"
                if R.bool(1, 3):
                    # a class body that raises: the statement binds nothing and the enclosing scope is in force again
                    L += [f"{pad}try:", f"{pad}    class {cname}:", f"{pad}        {nm} = 'cls{t}'", f"{pad}        T('{t}kb', {nm})",
                          f"{pad}        raise KeyError('{t}')", f"{pad}except KeyError:", f"{pad}    pass"]
                    L += [f"{pad}try:", f"{pad}    T('{t}kn', {cname}.{nm})", f"{pad}except NameError:", f"{pad}    T('{t}kn', 'NEcls')"]
                    L += self.read(nm, ind)
                    L += [f"{pad}z{t} = 'z{t}'", f"{pad}T('{t}kz', z{t})"]
                    continue
                L += [f"{pad}class {cname}:", f"{pad}    {nm} = 'cls{t}'", f"{pad}    y = {nm}"]
                L += [f"{pad}    def m(self):"] + self.read(nm, ind + 2) + [f"{pad}        return self.{nm}"]
                L += [f"{pad}o{t} = {cname}()", f"{pad}T('{t}k', ({cname}.y, o{t}.m()))"]
            elif k == "loopclosure":
                L += [f"{pad}fs{t} = []", f"{pad}for i{t} in range(3):", f"{pad}    def g{t}(j=i{t}):", f"{pad}        return (i{t}, j)", f"{pad}    fs{t}.append(g{t})", f"{pad}T('{t}l', [g() for g in fs{t}])"]
        # call inner functions again after all statements (late binding of closures)
        for gname, call in inner:
            if R.bool():
                t = self.tag()
                L += [f"{pad}try:", f"{pad}    T('{t}c2', {call})", f"{pad}except NameError:", f"{pad}    T('{t}c2', 'NEcall')"]
        for nm in NAMES:
            if R.bool(1, 2):
                L += self.read(nm, ind)
        if not L or all(x.strip().startswith(("global", "nonlocal")) for x in L):
            L.append(f"{pad}pass")
        return L

    def program(self):
        L = ["a = 'ga'", "b = 'gb'"]
        if self.R.bool():
            L.append("c = 'gc'")
        L += self.func_body(0, 0, "m", set(), is_module=True)
        for nm in NAMES:
            L += self.read(nm, 0)
        return "\n".join(L)


# --------------------------------------------------------------------------------------
# (c) multi-function programs
# --------------------------------------------------------------------------------------


class FuncGen:
    def __init__(self, R):
        self.R = R
        self.n = 0

    def tag(self):
        self.n += 1
        return f"t{self.n}"

    def program(self):
        R = self.R
        L = []
        parts = R.shuffle(["recursion", "decorators", "classes", "compiled", "defaults", "closures", "kwcall", "methods", "badcall"])
        for p in parts[: R.int(2, 5)]:
            L += getattr(self, "p_" + p)()
        return "\n".join(L)

    def p_recursion(self):
        R = self.R
        t = self.tag()
        n = R.int(0, 6)
        form = R.choice(["fact", "fib", "mutual", "acc"])
        if form == "fact":
            return [f"def fact{t}(n):", f"    return 1 if n <= 1 else n * fact{t}(n - 1)", f"T('{t}', fact{t}({n}))"]
        if form == "fib":
            return [f"def fib{t}(n, memo={{}}):", "    if n in memo:", "        return memo[n]", f"    r = n if n < 2 else fib{t}(n - 1) + fib{t}(n - 2)", "    memo[n] = r", "    return r", f"T('{t}', [fib{t}(i) for i in range({n})])"]
        if form == "mutual":
            return [f"def ev{t}(n):", f"    return True if n == 0 else od{t}(n - 1)", f"def od{t}(n):", f"    return False if n == 0 else ev{t}(n - 1)", f"T('{t}', (ev{t}({n}), od{t}({n})))"]
        return [f"def acc{t}(n, out=None):", "    if out is None:", "        out = []", "    if n:", "        out.append(n)", f"        acc{t}(n - 1, out)", "    return out", f"T('{t}', acc{t}({n}))"]

    def p_decorators(self):
        R = self.R
        t = self.tag()
        L = [
            f"def deco{t}(f):", f"    T('{t}deco', callable(f) or True)", "    def wrapper(*args, **kwargs):",
            f"        T('{t}pre', (args, sorted(kwargs.items())))", "        r = f(*args, **kwargs)", f"        T('{t}post', r)", "        return r", "    return wrapper",
            f"def decoarg{t}(x, y=0):", f"    T('{t}decoarg', (x, y))", "    def d(f):", "        def w(*a, **k):", "            return (x, y, f(*a, **k))", "        return w", "    return d",
        ]
        decs = []
        for _ in range(R.int(1, 3)):
            if R.bool():
                decs.append(f"@deco{t}")
            else:
                decs.append(f"@decoarg{t}(T('{self.tag()}', {R.int(0, 9)}){', y=T(' + repr(self.tag()) + ', 1)' if R.bool() else ''})")
        dflt = f"b=T('{self.tag()}', 5)" if R.bool() else "b=5"
        L += decs + [f"def target{t}(a, {dflt}, *c, **k):", f"    T('{t}body', (a, b, c, sorted(k.items())))", "    return a"]
        L += [f"T('{t}r1', target{t}(1))", f"T('{t}r2', target{t}(2, 3, 4, z=5))"]
        return L

    def p_classes(self):
        R = self.R
        t = self.tag()
        L = [
            f"class A{t}:", f"    ca = T('{self.tag()}', 'ca')", "    cnt = 0", "    def __init__(self, v, w=2):", "        self.v = v", "        self.w = w", f"        A{t}.cnt += 1",
            "    def get(self, k=1):", "        return (self.v, self.w, k, self.ca)", "    def chain(self):", "        return self.get(k=self.w)",
            f"class B{t}(A{t}):", "    ca = 'cb'", "    def get(self, k=1):", f"        return ('B',) + A{t}.get(self, k)",
        ]
        L += [f"o1{t} = A{t}({R.int(0, 5)})", f"o2{t} = B{t}('x', w=T('{self.tag()}', 9))", f"T('{t}a', (o1{t}.get(), o1{t}.chain(), o2{t}.get(3), o2{t}.chain(), A{t}.cnt))"]
        L += [f"m{t} = o2{t}.get", f"T('{t}bm', m{t}(k=7))", f"T('{t}isinst', (isinstance(o2{t}, A{t}), isinstance(o1{t}, B{t}), type(o2{t}).__name__))"]
        L += [f"o1{t}.extra = [1]", f"o1{t}.extra.append(2)", f"T('{t}attr', (o1{t}.extra, hasattr(o2{t}, 'extra'), getattr(o1{t}, 'v')))"]
        if R.bool():
            L += ["try:", f"    A{t}()", "except TypeError:", f"    T('{t}te', 'TE')"]
        if R.bool():
            L += ["try:", f"    o1{t}.nosuch", "except AttributeError:", f"    T('{t}ae', 'AE')"]
        if R.bool():
            # a subclass with its own __init__ that calls the base class's explicitly (by name or through two-argument
            # super), a mixin without __init__ before the base that has one, and a third level
            how = R.choice([f"A{t}.__init__(self, v, w=7)", f"super(C{t}, self).__init__(v, 8)"])
            L += [f"class M{t}:", "    tag = 'mix'", "    def who(self):", "        return (self.tag, self.v)",
                  f"class C{t}(M{t}, A{t}):", "    def __init__(self, v, z):", f"        {how}", "        self.z = z",
                  f"class D{t}(M{t}, A{t}):", "    pass",
                  f"class E{t}(C{t}):", "    def __init__(self):", f"        C{t}.__init__(self, 'e', 'z')", "        self.e = 1",
                  f"c{t} = C{t}('cv', T('{self.tag()}', 'cz'))", f"d{t} = D{t}('dv')", f"e{t} = E{t}()",
                  f"T('{t}init', (c{t}.v, c{t}.w, c{t}.z, c{t}.who(), d{t}.v, d{t}.w, d{t}.who(), e{t}.v, e{t}.z, e{t}.e, A{t}.cnt))"]
            L += ["try:", f"    D{t}()", "except TypeError:", f"    T('{t}te2', 'TE')"]
        return L

    def p_methods(self):
        t = self.tag()
        return [
            f"class S{t}:", "    def __init__(self):", "        self.items = []", "    def add(self, *xs, **kw):", "        self.items.extend(xs)", "        self.items.extend(sorted(kw))", "        return self",
            "    def total(self):", "        return len(self.items)",
            f"s{t} = S{t}()", f"T('{t}', (s{t}.add(1, 2).add(z=1, y=2).total(), s{t}.items))", f"T('{t}cls', [m for m in sorted(vars(S{t})) if not m.startswith('_')])",
        ]

    def p_compiled(self):
        R = self.R
        t = self.tag()
        L = [f"@pyscript_compile", f"def comp{t}(a, b=2, *c, **k):", "    return (a, b, c, sorted(k.items()))"]
        L += [f"def user{t}(x):", f"    return comp{t}(x, *[T('{self.tag()}', 7)], q=T('{self.tag()}', 8))", f"T('{t}', user{t}({R.int(0, 3)}))"]
        L += [f"T('{t}map', list(map(comp{t}, [1, 2])))", f"T('{t}sorted', sorted([3, 1, 2], key=lambda v: -v))"]
        return L

    def p_defaults(self):
        t = self.tag()
        return [
            f"def mk{t}():", f"    T('{t}mk')", "    return []",
            f"def f{t}(x, acc=mk{t}(), *, flag=T('{self.tag()}', False)):", "    acc.append(x)", "    return (acc, flag)",
            f"T('{t}a', f{t}(1))", f"T('{t}b', f{t}(2))", f"T('{t}c', f{t}(3, [], flag=True))",
        ]

    def p_closures(self):
        R = self.R
        t = self.tag()
        return [
            f"def counter{t}(start):", "    n = start", "    def inc(by=1):", "        nonlocal n", "        n += by", "        return n", "    def get():", "        return n", "    return inc, get",
            f"i1{t}, g1{t} = counter{t}({R.int(0, 5)})", f"i2{t}, g2{t} = counter{t}(100)", f"i1{t}()", f"i1{t}(5)", f"i2{t}()",
            f"T('{t}', (g1{t}(), g2{t}()))",
            f"def adders{t}():", "    fs = []", "    for k in range(3):", "        def add(x):", "            return x + k", "        fs.append(add)", "    return fs",
            f"T('{t}late', [f(10) for f in adders{t}()])",
        ]

    def p_kwcall(self):
        R = self.R
        t = self.tag()
        kw = R.choice(["trigger_type", "value", "var_name", "context"])
        return [
            f"def plain{t}(a, b=1):", "    return (a, b)", f"def withkw{t}(a, **k):", "    return (a, sorted(k.items()))",
            f"T('{t}p', plain{t}(1, {kw}='x'))", f"T('{t}k', withkw{t}(1, {kw}='x'))",
            "try:", f"    plain{t}(1, nosuch=2)", "except TypeError:", f"    T('{t}te', 'TE')",
            "try:", f"    plain{t}()", "except TypeError:", f"    T('{t}te2', 'TE')",
            "try:", f"    plain{t}(1, 2, 3)", "except TypeError:", f"    T('{t}te3', 'TE')",
            "try:", f"    plain{t}(1, a=2)", "except TypeError:", f"    T('{t}te4', 'TE')",
        ]


    def p_badcall(self):
        """A call that fails while its arguments are bound, caught inside another function that then goes on using its
        own name-resolution state: a name it declared global, a nested def, a global named like the callee's parameter."""
        R = self.R
        t = self.tag()
        bad = R.choice([f"callee{t}()", f"callee{t}(1, 2, 3)", f"callee{t}(1, nosuch{t}=2)", f"callee{t}(1, p{t}=2)", f"callee{t}(*[1, 2, 3])", f"callee{t}(**{{'zz{t}': 1}})"])
        L = [f"g{t} = 'init'", f"p{t} = 10", f"def callee{t}(p{t}, q{t}=5):", f"    loc{t} = 1", f"    return p{t} + q{t}",
             f"def caller{t}():", f"    global g{t}", "    try:", f"        {bad}", "    except TypeError:", f"        T('{t}te', 'TE')"]
        for _ in range(R.int(1, 3)):
            k = R.choice(["gwrite", "pread", "def", "good"])
            if k == "gwrite":
                L.append(f"    g{t} = 'after {self.tag()}'")
            elif k == "pread":
                L.append(f"    T('{self.tag()}', p{t})")
            elif k == "def":
                u = self.tag()
                L += [f"    def inner{u}():", f"        return (g{t}, p{t})", f"    T('{u}', inner{u}())"]
            else:
                L.append(f"    T('{self.tag()}', callee{t}(1))")
        L += [f"    return g{t}", f"T('{t}r', caller{t}())", f"T('{t}g', (g{t}, p{t}))"]
        return L


# --------------------------------------------------------------------------------------
# known findings
# --------------------------------------------------------------------------------------


def pred_super(tree, kinds):
    return any(isinstance(n, ast.Call) and isinstance(n.func, ast.Name) and n.func.id == "super" and not n.args for n in ast.walk(tree))


def pred_del_attr(tree, kinds):
    return any(isinstance(n, ast.Delete) and any(isinstance(t, ast.Attribute) for t in n.targets) for n in ast.walk(tree))


def pred_temp_instance(tree, kinds):
    return any(
        isinstance(n, ast.Call) and isinstance(n.func, ast.Attribute) and isinstance(n.func.value, ast.Call)
        for n in ast.walk(tree)
    ) and any("AttributeError" in k or "TypeError" in k for k in kinds)


def pred_comp_local(tree, kinds):
    for fn in ast.walk(tree):
        if isinstance(fn, ast.FunctionDef):
            targets = set()
            for n in ast.walk(fn):
                if isinstance(n, (ast.ListComp, ast.SetComp, ast.DictComp)):
                    for g in n.generators:
                        targets |= {x.id for x in ast.walk(g.target) if isinstance(x, ast.Name)}
            loads = {x.id for x in ast.walk(fn) if isinstance(x, ast.Name) and isinstance(x.ctx, ast.Load)}
            if targets & loads:
                return True
    return False


def pred_class_under_global(tree, kinds):
    for fn in ast.walk(tree):
        if isinstance(fn, ast.FunctionDef):
            decl = {nm for n in ast.walk(fn) if isinstance(n, (ast.Global, ast.Nonlocal)) for nm in n.names}
            for c in ast.walk(fn):
                if isinstance(c, ast.ClassDef):
                    for st in c.body:
                        if isinstance(st, ast.Assign) and any(isinstance(t, ast.Name) and t.id in decl for t in st.targets):
                            return True
    return False


def _funcs(tree):
    return [n for n in ast.walk(tree) if isinstance(n, ast.FunctionDef)]


def pred_nested_global(tree, kinds):
    for fn in _funcs(tree):
        decl = {nm for st in fn.body if isinstance(st, ast.Global) for nm in st.names}
        if not decl:
            continue
        for g in _funcs(fn):
            if g is fn:
                continue
            if any(isinstance(x, ast.Name) and x.id in decl for x in ast.walk(g)):
                return True
    return False


def pred_nonlocal_forms(tree, kinds):
    return any(isinstance(n, ast.Nonlocal) for n in ast.walk(tree)) and any(
        isinstance(n, (ast.Delete, ast.ExceptHandler, ast.With, ast.For, ast.Global)) for n in ast.walk(tree)
    )


PREDICATES = {
    "C03-nested-global-decl": pred_nested_global,
    "C03-nonlocal-binding-forms": pred_nonlocal_forms,
    "C03-class-body-under-global": pred_class_under_global,
    "C03-method-on-temporary-instance": pred_temp_instance,
    "C03-comprehension-var-function-local": pred_comp_local,
    "C03-zero-arg-super": pred_super,
    "C03-del-attribute": pred_del_attr,
}


def is_nontrivial(src, o1):
    nts = node_types(src)
    return "FunctionDef" in nts and "Call" in nts and len(o1["log"]) + len(o1["globals"]) > 0


CHECK = C03Check(
    PROP, RULE, PREDICATES, inject=make_inject, nontrivial=is_nontrivial,
    assumptions=[
        "CPython 3.12 in the same process is the reference; pyscript_compile is the identity there",
        "documented limitations are not generated: script-defined special methods other than __init__/__enter__/__exit__, built-in decorators, async def, interpreted functions as callbacks of native code, lambdas/compiled functions closing over function locals",
        "the list of reserved trigger keywords is taken from the documentation, not from eval.py",
    ],
)

REGRESS = [
    ("kwonly-required", "def f(a, *, k):\n    return (a, k)\ntry:\n    x = f(1)\nexcept TypeError:\n    x = 'TE'\ny = f(1, k=2)"),
    ("nonlocal-chain", "def f():\n    x = 1\n    def g():\n        def h():\n            nonlocal x\n            x += 1\n            return x\n        return h()\n    return (g(), x)\nr = f()"),
    ("global-decl", "x = 1\ndef f():\n    global x, y\n    x = 2\n    y = 3\nf()\nr = (x, y)"),
    ("unbound-local", "x = 1\ndef f():\n    try:\n        r = x\n    except NameError:\n        r = 'NE'\n    x = 2\n    return r\nr = f()"),
    ("class-scope", "x = 'g'\nclass K:\n    x = 'c'\n    def m(self):\n        return x\nr = (K.x, K().m())"),
    ("class-body-raises", "def f():\n    a = 1\n    try:\n        class K:\n            x = 1\n            raise ValueError\n    except ValueError:\n        pass\n    y = 2\n    try:\n        K\n        k = 'bound'\n    except NameError:\n        k = 'NE'\n    return (a, y, k)\nr = f()\ntry:\n    class M:\n        raise KeyError\nexcept KeyError:\n    pass\nz = 3"),
    ("explicit-base-init", "class A:\n    def __init__(self, v):\n        self.v = v\nclass B(A):\n    def __init__(self, v, w):\n        A.__init__(self, v)\n        self.w = w\nclass C(A):\n    def __init__(self, v):\n        super(C, self).__init__(v + 1)\nr = (B(1, 2).v, B(1, 2).w, C(1).v)"),
    ("mixin-before-base-init", "class A:\n    def __init__(self, v):\n        self.v = v\nclass M:\n    tag = 'm'\nclass B(M, A):\n    pass\nr = (B(4).v, B(5).tag)"),
    ("default-once", "def f(a=[]):\n    a.append(1)\n    return a\nf()\nr = f()"),
]


async def shard_main(tier, shard_i, shard_n):
    res = core.ShardResult()
    async with l1.bare_hass():
        if shard_i == 0:
            for rid, src in REGRESS + CHECK.regress_from_findings():
                await CHECK.check_one(res, "regress:" + rid, src)
        await CHECK.run_programs(res, binding_programs(), shard_i, shard_n)
        n_scope = {"quick": 4000, "thorough": 120000}[tier]
        n_func = {"quick": 2000, "thorough": 60000}[tier]
        depth = {"quick": 3, "thorough": 4}[tier]
        await CHECK.run_random(res, lambda R: ScopeGen(R, depth).program(), n_scope, shard_i, shard_n, klass="scope")
        await CHECK.run_random(res, lambda R: FuncGen(R).program(), n_func, shard_i, shard_n, klass="func")
    return res


def run_shard(tier, shard_i, shard_n):
    return asyncio.run(shard_main(tier, shard_i, shard_n))


def replay(path):
    return CHECK.replay(path)


def main(tier):
    return CHECK.main(tier, extra={"exhaustive_binding_table": True})
