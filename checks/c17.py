"""C17 - import and builtin restrictions hold for every import form (enumeration + model).

Parameter of the property: ALLOWED_IMPORTS, read from custom_components/pyscript/const.py at run time.
"""

from __future__ import annotations

import asyncio
import builtins
import importlib
import io
import json
import keyword
import logging
import os
import pkgutil
import shutil
import sys
import tempfile
import types

from vlib import core, l1
from vlib.modelcheck import ModelCheck

PROP = "C17"

# ------------------------------------------------------------------------------------------
# Deviations of the real code found by this check.  Each constant masks exactly one statement shape; a case
# with "strict": true ignores all of them (use that for reproducer cases).
# ------------------------------------------------------------------------------------------

def _open(fid):
    """A deviation is masked only while its finding is listed as open in known_findings.json."""
    return any(f["id"] == fid for f in core.open_findings("C17"))


# `import a.b` (no alias) stores the leaf module under the key "a.b" of the symbol table; CPython binds the
# top-level package `a`.  Minimal: `import homeassistant.const` -> name `homeassistant` is undefined.
KNOWN_FINDING_DOTTED_IMPORT_BINDS_DOTTED_KEY = _open('C17-dotted-import-binds-dotted-key')
# `from m import *` ignores m.__all__ and binds every non-underscore name of m.__dict__.
# Minimal: `from json import *` also binds codecs, decoder, encoder, scanner, detect_encoding.
KNOWN_FINDING_STAR_IGNORES_DUNDER_ALL = _open('C17-star-ignores-dunder-all')
# `from m import name` is a plain getattr: a missing name raises AttributeError (CPython: ImportError) and a
# submodule that is not loaded yet is not imported.  Minimal: `from json import zz_missing_name`, `from json import tool`.
KNOWN_FINDING_FROM_IMPORT_IS_PLAIN_GETATTR = _open('C17-from-import-plain-getattr')
# `from .m import x` inside an app falls back to the absolute module m when no pyscript file matches.
# Minimal (app context): `from .json import dumps` binds the standard library's json.dumps.
KNOWN_FINDING_RELATIVE_FALLS_BACK_TO_ABSOLUTE = _open('C17-relative-falls-back-to-absolute')
# lambda and @pyscript_compile bodies are native Python (documented): excluded builtins are readable there.
# Minimal: `x = (lambda: open)()`.
KNOWN_FINDING_NATIVE_BODY_READS_BUILTINS = _open('C17-native-body-reads-builtins')
# After the first lambda / @pyscript_compile definition the script's globals contain `__builtins__`.
# Minimal: `f = lambda: 1` then `x = __builtins__['open']`.
KNOWN_FINDING_BUILTINS_DICT_GLOBAL_AFTER_NATIVE_DEF = _open('C17-builtins-dict-global-after-native-def')

MNFE = "ModuleNotFoundError"

FORMS = ["import", "import_as", "from", "from_as", "from_star", "import_child", "multi_first", "multi_last"]
MODES = ["direct", "exec", "eval_exec", "func", "class", "try"]

HARMLESS = [
    "json", "string", "textwrap", "fractions", "heapq", "bisect", "colorsys", "uuid", "base64", "binascii",
    "calendar", "collections", "collections.abc", "copy", "dataclasses", "enum", "itertools", "operator",
    "os.path", "posixpath", "struct", "types", "typing", "xml.etree.ElementTree", "email.mime.text",
    "concurrent.futures", "html", "html.parser", "difflib", "hashlib", "zlib", "numbers", "pprint", "reprlib",
    "stat", "keyword", "token", "urllib.parse", "ipaddress", "graphlib", "contextlib", "abc",
    "zz_nosuch_module_c17", "zz_nosuch_pkg_c17.zz_child", "json.zz_child",
]

FIXED_SUBMODULES = [
    "os.path", "xml.etree", "xml.etree.ElementTree", "xml.dom.minidom", "email.mime.text", "email.mime", "collections.abc",
    "concurrent.futures", "concurrent.futures.thread", "importlib.util", "importlib.machinery", "importlib.metadata",
    "json.decoder", "json.encoder", "json.tool", "json.scanner", "urllib.request", "urllib.parse", "http.client",
    "http.server", "multiprocessing.pool", "logging.handlers", "logging.config", "asyncio.subprocess", "ctypes.util",
    "encodings.utf_8", "unittest.mock", "homeassistant.core", "homeassistant.helpers", "homeassistant.helpers.template",
    "homeassistant.util.dt", "homeassistant.components.shell_command", "datetime.datetime", "time.time", "re.compile",
    "math.pi", "os.system", "decimal.Decimal", "functools.partial", "voluptuous.validators", "voluptuous.error",
    "voluptuous.schema_builder", "random.Random", "statistics.mean", "string.Template", "distutils.spawn",
    "stubs", "stubs.pyscript_builtins", "stubs.pyscript_generated", "stubs.a.b", "stubsx", "xstubs", "stub", "Stubs", "zz_pkg.stubs",
]

BUILTIN_FORBIDDEN = ["open", "compile", "input", "breakpoint", "memoryview"]
BUILTIN_EXTRA_FORBIDDEN = ["__import__"]  # not in the statement's list, but the obvious way around an import statement
BUILTIN_CONTROL = ["len", "sorted", "isinstance"]  # must stay reachable: guards against a vacuous harness

BUILTIN_CONTEXTS = {
    "module": "zz_x = {N}",
    "func": "def zz_f():\n    return {N}\nzz_x = zz_f()",
    "nested_func": "def zz_f():\n    def zz_g():\n        return {N}\n    return zz_g()\nzz_x = zz_f()",
    "async_func": "async def zz_f():\n    return {N}\nzz_x = zz_f()",
    "global_decl": "def zz_f():\n    global {N}\n    return {N}\nzz_x = zz_f()",
    "default_arg": "def zz_f(zz_a={N}):\n    return zz_a\nzz_x = zz_f()",
    "class": "class zz_C:\n    zz_y = {N}\nzz_x = zz_C.zz_y",
    "method": "class zz_C:\n    def zz_m(self):\n        return {N}\nzz_x = zz_C().zz_m()",
    "listcomp": "zz_x = [{N} for zz_i in range(1)][0]",
    "setcomp": "zz_x = list({{{N} for zz_i in range(1)}})[0]",
    "dictcomp": "zz_x = {{zz_i: {N} for zz_i in range(1)}}[0]",
    "comp_in_func": "def zz_f():\n    return [{N} for zz_i in range(1)][0]\nzz_x = zz_f()",
    "eval": "zz_x = eval('{N}')",
    "exec": "exec('zz_x = {N}')",
    "eval_in_func": "def zz_f():\n    return eval('{N}')\nzz_x = zz_f()",
    "exec_in_func": "def zz_f():\n    exec('zz_q = {N}')\n    return locals()['zz_q']\nzz_x = zz_f()",
    "eval_eval": "zz_x = eval(\"eval('{N}')\")",
    "fstring": "zz_x = f'{{{N}}}'",
    "attribute": "zz_x = {N}.__name__",
    "tuple": "zz_x = (1, {N})[1]",
    "call_arg": "zz_x = (lambda zz_v: zz_v)({N})",
    "ifexp": "zz_x = {N} if True else None",
    "try": "try:\n    zz_x = {N}\nexcept NameError:\n    zz_x = 'caught-NameError'",
    "after_lambda": "zz_l = lambda: 1\nzz_x = {N}",
    "after_lambda_call": "zz_l = lambda: 1\nzz_l()\nzz_x = {N}",
    "after_lambda_eval": "zz_l = lambda: 1\nzz_x = eval('{N}')",
    "after_lambda_func": "zz_l = lambda: 1\ndef zz_f():\n    return {N}\nzz_x = zz_f()",
    "after_compile": "@pyscript_compile\ndef zz_g():\n    return 1\nzz_x = {N}",
    "after_compile_call": "@pyscript_compile\ndef zz_g():\n    return 1\nzz_g()\nzz_x = {N}",
    "after_compile_exec": "@pyscript_compile\ndef zz_g():\n    return 1\nexec('zz_x = {N}')",
    "after_executor": "@pyscript_executor\ndef zz_g():\n    return 1\nzz_x = {N}",
    # native bodies: documented as plain Python (KNOWN_FINDING_NATIVE_BODY_READS_BUILTINS)
    "lambda_body": "zz_x = (lambda: {N})()",
    "compile_body": "@pyscript_compile\ndef zz_g():\n    return {N}\nzz_x = zz_g()",
}
NATIVE_BODY_CONTEXTS = {"lambda_body", "compile_body"}
AFTER_NATIVE_CONTEXTS = {c for c in BUILTIN_CONTEXTS if c.startswith("after_")} | {"call_arg"}

LOG_FUNCS = {"print": None, "log.debug": "DEBUG", "log.info": "INFO", "log.warning": "WARNING", "log.error": "ERROR"}
LOG_CONTEXTS = {
    "module": "{F}({M})",
    "func": "def zz_f():\n    {F}({M})\nzz_f()",
    "exec": "exec({S!r})",
    "class": "class zz_C:\n    {F}({M})",
    "comp": "[{F}({M}) for zz_i in range(1)]",
    "after_lambda": "zz_l = lambda: 1\n{F}({M})",
    "alias": "zz_p = {F}\nzz_p({M})",
}
LOG_MESSAGES = ["'hello c17'", "'%d%% literal'", "'multi\\nline'", "f'{1 + 1} formatted'"]

# files of the shadowing configuration directory, relative to <config>/pyscript: path -> (source, public names)
MARK = "ZZ_MARKER"


def _modsrc(path, extra=""):
    return f"{extra}{MARK} = {path!r}\n\ndef zz_func():\n    return {MARK}\n"


SHADOW_FILES = {
    "modules/subprocess.py": _modsrc("modules/subprocess.py"),
    "modules/socket/__init__.py": _modsrc("modules/socket/__init__.py"),
    "modules/socket/sub.py": _modsrc("modules/socket/sub.py"),
    "modules/json.py": _modsrc("modules/json.py"),
    "modules/string/__init__.py": _modsrc("modules/string/__init__.py"),
    "modules/zz_plainmod.py": _modsrc("modules/zz_plainmod.py"),
    "modules/zz_both.py": _modsrc("modules/zz_both.py"),
    "modules/zz_both/__init__.py": _modsrc("modules/zz_both/__init__.py"),
    "modules/zz_inner_bad.py": _modsrc("modules/zz_inner_bad.py", "import os\n"),
    "modules/zz_inner_ok.py": _modsrc("modules/zz_inner_ok.py", "import math\n"),
    "modules/zz_inner_shadow.py": _modsrc("modules/zz_inner_shadow.py", "import subprocess as zz_sp\nZZ_INNER = zz_sp.ZZ_MARKER\n"),
    "apps/shutil.py": _modsrc("apps/shutil.py"),
    "apps/ctypes/__init__.py": _modsrc("apps/ctypes/__init__.py"),
    "apps/subprocess.py": _modsrc("apps/subprocess.py"),
}
SHADOW_EXTRA_PUBLIC = {
    "modules/zz_inner_bad.py": {"os": "module:os"},
    "modules/zz_inner_ok.py": {"math": "module:math"},
    "modules/zz_inner_shadow.py": {"zz_sp": "pyscript-module:modules/subprocess.py", "ZZ_INNER": "str:modules/subprocess.py"},
}
SHADOW_INNER_IMPORTS = {"modules/zz_inner_bad.py": "os", "modules/zz_inner_ok.py": "math"}
SHADOW_NAMES = ["subprocess", "socket", "socket.sub", "json", "string", "zz_plainmod", "zz_both", "zz_inner_bad", "zz_inner_ok",
                "zz_inner_shadow", "shutil", "ctypes", "os", "math", "subprocessx", "socket.zz_nofile", "Subprocess"]

_ALLOWED = None


def allowed():
    global _ALLOWED
    if _ALLOWED is None:
        from custom_components.pyscript.const import ALLOWED_IMPORTS

        _ALLOWED = frozenset(ALLOWED_IMPORTS)
    return _ALLOWED


# ------------------------------------------------------------------------------------------
# enumeration of module names (names only: nothing is imported here)
# ------------------------------------------------------------------------------------------


def valid(name):
    if not name or not name.isascii():
        return False
    return all(p.isidentifier() and not keyword.iskeyword(p) for p in name.split("."))


def _children(path, prefix):
    try:
        return sorted(prefix + "." + m.name for m in pkgutil.iter_modules([path]) if valid(m.name)), path
    except Exception:  # noqa: BLE001
        return [], path


_ENUM_CACHE = {}


def enumerate_names(tier):
    """-> (sorted list of dotted names, dict of counts)."""
    if tier not in _ENUM_CACHE:
        _ENUM_CACHE[tier] = _enumerate_names(tier)
    return _ENUM_CACHE[tier]


def _enumerate_names(tier):
    cap1 = {"quick": 4, "thorough": 10 ** 6}[tier]
    cap2 = {"quick": 0, "thorough": 12}[tier]
    tops = set(sys.stdlib_module_names)
    try:
        import importlib.metadata

        tops |= set(importlib.metadata.packages_distributions())
    except Exception:  # noqa: BLE001
        pass
    infos = []
    try:
        infos = list(pkgutil.iter_modules())
    except Exception:  # noqa: BLE001
        pass
    tops |= {m.name for m in infos}
    tops = {n for n in tops if valid(n)}
    allow_parents = {a.split(".")[0] for a in allowed() if "." in a}
    subs = set()
    for m in infos:
        if not m.ispkg or not valid(m.name):
            continue
        base = getattr(m.module_finder, "path", None)
        if not base:
            continue
        pkgdir = os.path.join(base, m.name)
        kids, _ = _children(pkgdir, m.name)
        take = kids if m.name in allow_parents else kids[:cap1]
        subs.update(take)
        for k in take if cap2 else ():
            kdir = os.path.join(pkgdir, k.split(".")[-1])
            if cap2 and os.path.isdir(kdir):
                subs.update(_children(kdir, k)[0][:cap2])
    fixed = {n for n in FIXED_SUBMODULES if valid(n)}
    near = set()
    for a in allowed():
        near |= near_misses(a)
    names = (tops | subs | fixed | near | set(allowed()))
    counts = {"top_level": len(tops), "enumerated_submodules": len(subs), "fixed_submodules": len(fixed),
              "near_misses": len(near - set(allowed())), "allowed": len(allowed())}
    return sorted(names), counts


def near_misses(a):
    out = {a + "x", "x" + a, a + "_", "_" + a, a[:-1], a[1:], a.upper(), a.capitalize(), a.swapcase(), a + "s", a + a,
           a + ".zz_child", a + "." + a.split(".")[-1], "zz_pkg." + a, a.replace(".", "_")}
    if "." in a:
        parts = a.split(".")
        parent, leaf = ".".join(parts[:-1]), parts[-1]
        out |= {parent, leaf, parent + ".core", parent + "." + leaf + "x", parent + "." + leaf[:-1], parent + "." + leaf.capitalize(),
                parent.capitalize() + "." + leaf, parent + "x." + leaf, parent + ".helpers", leaf + "." + parent}
    return {n for n in out if valid(n) and n not in allowed()}


def related(name):
    """The non-trivial rule: a disallowed name sharing a prefix (or the top-level package) with an allowed one."""
    if name in allowed():
        return False
    ln = name.lower()
    for a in allowed():
        la = a.lower()
        if ln.startswith(la) or la.startswith(ln) or name.split(".")[0] == a.split(".")[0]:
            return True
    return False


_ATTR_CACHE = {}


def pick_attr(modname):
    """First public, non-module attribute of an importable module that the model permits to import; else a dummy."""
    if modname in _ATTR_CACHE:
        return _ATTR_CACHE[modname]
    attr = "zz_attr"
    try:
        mod = importlib.import_module(modname)
        pub = getattr(mod, "__all__", None) or sorted(k for k in vars(mod) if not k.startswith("_"))
        for k in pub:
            if isinstance(k, str) and valid(k) and "." not in k and not isinstance(getattr(mod, k, None), types.ModuleType) and hasattr(mod, k):
                attr = k
                break
    except BaseException:  # noqa: BLE001
        pass
    _ATTR_CACHE[modname] = attr
    return attr


# ------------------------------------------------------------------------------------------
# statements
# ------------------------------------------------------------------------------------------


def companion(name):
    return "cmath" if name.split(".")[0] == "math" else "math"


def render(st):
    n, f = st["name"], st["form"]
    a = st.get("attr") or "zz_attr"
    if f == "import":
        return f"import {n}"
    if f == "import_as":
        return f"import {n} as zz_alias"
    if f == "from":
        return f"from {n} import {a}"
    if f == "from_as":
        return f"from {n} import {a} as zz_alias"
    if f == "from_star":
        return f"from {n} import *"
    if f == "import_child":
        return f"import {n}.{st.get('child') or 'zz_child'}"
    if f == "multi_first":
        return f"import {n}, {companion(n)}"
    if f == "multi_last":
        return f"import {companion(n)}, {n}"
    if f == "from_missing":
        return f"from {n} import zz_missing_name"
    if f == "from_submodule":
        return f"from {n} import {a}"
    if f == "rel_from":
        return f"from {'.' * st.get('level', 1)}{n} import {a}"
    if f == "rel_import":
        return f"from {'.' * st.get('level', 1)} import {n}"
    raise ValueError(f)


def steps(st):
    """Decompose into elementary (kind, module, attr, asname) steps in execution order."""
    n, f = st["name"], st["form"]
    a = st.get("attr") or "zz_attr"
    if f == "import":
        return [("import", n, None, None)]
    if f == "import_as":
        return [("import", n, None, "zz_alias")]
    if f in ("from", "from_submodule"):
        return [("from", n, a, None)]
    if f == "from_as":
        return [("from", n, a, "zz_alias")]
    if f == "from_star":
        return [("from", n, "*", None)]
    if f == "import_child":
        return [("import", n + "." + (st.get("child") or "zz_child"), None, None)]
    if f == "multi_first":
        return [("import", n, None, None), ("import", companion(n), None, None)]
    if f == "multi_last":
        return [("import", companion(n), None, None), ("import", n, None, None)]
    if f == "from_missing":
        return [("from", n, "zz_missing_name", None)]
    raise ValueError(f)


def step_text(step):
    kind, mod, attr, asname = step
    if kind == "import":
        return f"import {mod}" + (f" as {asname}" if asname else "")
    return f"from {mod} import {attr}" + (f" as {asname}" if asname else "")


def wrap(lines, mode):
    body = "\n".join(lines)
    ind = "\n".join("    " + ln for ln in lines)
    if mode == "direct":
        return body
    if mode == "exec":
        return f"exec({body!r})"
    if mode == "eval_exec":
        inner = f"exec({body!r})"
        return f"eval({inner!r})"
    if mode == "func":
        return f"def zz_f():\n{ind}\n    return locals()\nzz_r = zz_f()"
    if mode == "class":
        return f"class zz_C:\n{ind}"
    if mode == "try":
        return f"try:\n{ind}\n    zz_ok = True\nexcept ImportError as zz_err:\n    zz_caught = type(zz_err).__name__"
    raise ValueError(mode)


HARNESS_NAMES = {"zz_f", "zz_r", "zz_C", "zz_ok", "zz_err", "zz_caught"}


def describe(v):
    try:
        t = type(v).__name__
        if isinstance(v, types.ModuleType):
            m = v.__dict__.get(MARK)
            if isinstance(m, str):
                return "pyscript-module:" + m
            return "module:" + str(v.__dict__.get("__name__"))
        if isinstance(v, str):
            return "str:" + v[:60]
        if t in ("EvalFuncVar", "EvalFunc"):
            return "pyscript-func:" + str(v.get_name())
        return t + ":" + str(getattr(v, "__name__", ""))
    except BaseException:  # noqa: BLE001
        return "<undescribable>"


def is_unbound(v):
    return type(v).__name__ == "EvalLocalVar" and not v.is_defined()


def unwrap(v):
    if type(v).__name__ == "EvalLocalVar":
        return v.get()
    return v


# ------------------------------------------------------------------------------------------
# environment: one Home Assistant instance per (allow_all_imports, configuration) at a time
# ------------------------------------------------------------------------------------------


_PYLIB = [None]


class _NearMissFinder:
    """In-memory packages for near-miss names (appended to sys.meta_path: never shadows anything installed)."""

    def __init__(self, names):
        self.names = set()
        for n in names:
            parts = n.split(".")
            self.names |= {".".join(parts[: i + 1]) for i in range(len(parts))}

    def find_spec(self, fullname, path=None, target=None):
        if fullname in self.names:
            from importlib.machinery import ModuleSpec

            return ModuleSpec(fullname, self, is_package=True)
        return None

    def create_module(self, spec):
        return None

    def exec_module(self, module):
        module.ZZ_NEAR_MISS = True
        module.zz_attr = "zz_attr"


def create_near_miss_modules():
    """Near-miss names that are not installed become real, harmless, importable packages: a wrongly permitted import
    then really imports something (binding + sys.modules entry) instead of ending in the same ModuleNotFoundError as
    a rejection."""
    if _PYLIB[0] is not None:
        return
    import importlib.util

    wanted = []
    for a in sorted(allowed()):
        for n in sorted(near_misses(a)):
            parts = n.split(".")
            try:
                exists = parts[0] in sys.modules or importlib.util.find_spec(parts[0]) is not None
            except BaseException:  # noqa: BLE001
                exists = True
            prefixes = {".".join(parts[: i + 1]) for i in range(len(parts))}
            if not exists and not (prefixes & set(allowed())):  # never create an allow-listed module
                wanted.append(n)
    finder = _NearMissFinder(wanted)
    sys.meta_path.append(finder)
    _PYLIB[0] = finder
    _PYLIB.append(len(wanted))
    importlib.invalidate_caches()


def remove_near_miss_modules():
    finder = _PYLIB[0]
    if finder is None:
        return
    for k in [k for k, m in list(sys.modules.items()) if getattr(m, "ZZ_NEAR_MISS", False) is True]:
        sys.modules.pop(k, None)
    if finder in sys.meta_path:
        sys.meta_path.remove(finder)
    _PYLIB[0] = None
    del _PYLIB[1:]


def forget_near_miss_modules(names):
    for k in names:
        m = sys.modules.get(k)
        if m is not None and m.__dict__.get("ZZ_NEAR_MISS") is True:
            sys.modules.pop(k, None)


class Env:
    def __init__(self):
        self.key = None
        self.loop = None
        self.cm = None
        self.hass = None
        self.tmp = None
        self.seq = 0

    def ensure(self, allow_all, cfg):
        key = (bool(allow_all), cfg)
        if self.key == key:
            return
        self.close(final=False)
        create_near_miss_modules()
        self.loop = asyncio.new_event_loop()
        asyncio.set_event_loop(self.loop)
        config_dir = None
        if cfg == "shadow":
            self.tmp = tempfile.mkdtemp(prefix="verif-c17-")
            config_dir = self.tmp
            for rel, src in SHADOW_FILES.items():
                p = os.path.join(config_dir, "pyscript", rel)
                os.makedirs(os.path.dirname(p), exist_ok=True)
                with open(p, "w") as f:
                    f.write(src)
        self.cm = l1.bare_hass(allow_all_imports=bool(allow_all), config_dir=config_dir)
        try:
            self.hass = self.loop.run_until_complete(self.cm.__aenter__())
        except BaseException:
            self.cm = None
            self.close()
            raise
        self.key = key
        self.clear_contexts()
        loop = self.loop

        def inline_executor_job(target, *args):
            """Home Assistant's executor is not under test: run the job on the loop thread (no thread hand-off)."""
            fut = loop.create_future()
            try:
                fut.set_result(target(*args))
            except Exception as e:  # noqa: BLE001
                fut.set_exception(e)
            return fut

        self.hass.async_add_executor_job = inline_executor_job
        # warm-up: the executor thread pool and lazily imported helpers come up before anything is measured
        self.loop.run_until_complete(run_script("import zz_warmup_c17_nosuch\n"))
        self.loop.run_until_complete(run_script("import math\nzz_l = lambda: 1\nprint('warm')\n"))

    def clear_contexts(self):
        from custom_components.pyscript.global_ctx import GlobalContextMgr

        GlobalContextMgr.contexts.clear()

    def close(self, final=True):
        try:
            if self.cm is not None and self.loop is not None:
                try:
                    self.loop.run_until_complete(self.cm.__aexit__(None, None, None))
                except BaseException:  # noqa: BLE001
                    pass
            if self.loop is not None:
                try:
                    self.loop.close()
                except BaseException:  # noqa: BLE001
                    pass
        finally:
            if self.tmp:
                shutil.rmtree(self.tmp, ignore_errors=True)
            self.key = self.loop = self.cm = self.hass = self.tmp = None
            try:
                self.clear_contexts()
            except BaseException:  # noqa: BLE001
                pass
            if final:
                remove_near_miss_modules()

    def run(self, coro):
        return self.loop.run_until_complete(coro)


ENV = Env()
_SEQ = [0]
_MODS = [set()]


async def run_script(src, app=False, timeout=10.0, keep=None):
    """Execute src in a fresh global context -> (globals, exception, ctx name, stdout text, new sys.modules keys)."""
    from custom_components.pyscript.eval import AstEval
    from custom_components.pyscript.function import Function
    from custom_components.pyscript.global_ctx import GlobalContext, GlobalContextMgr

    _SEQ[0] += 1
    if app:
        name, rel = f"apps.zz_app{_SEQ[0]}", f"apps/zz_app{_SEQ[0]}"
    else:
        name, rel = f"c17_{_SEQ[0]}", None
    gsym = {}
    global_ctx = GlobalContext(name, global_sym_table=gsym, manager=GlobalContextMgr, rel_import_path=rel)
    # GlobalContext replaces a falsy symbol table by a new dict
    gsym = global_ctx.global_sym_table
    ast_ctx = AstEval(name, global_ctx=global_ctx)
    Function.install_ast_funcs(ast_ctx)
    if keep is not None:
        keep.append(global_ctx)
    exc = None
    if len(_MODS[0]) != len(sys.modules):
        _MODS[0] = set(sys.modules)
    before = _MODS[0]
    old_stdout = sys.stdout
    buf = io.StringIO()
    sys.stdout = buf
    try:
        try:
            ast_ctx.parse(src)
            with l1.time_limit(timeout):
                await ast_ctx.eval()
        except BaseException as e:  # noqa: BLE001
            # SystemExit is kept as an observation: a wrongly permitted import may run a module that exits
            if isinstance(e, (KeyboardInterrupt, asyncio.CancelledError, l1.CaseTimeout)):
                raise
            exc = e
    finally:
        sys.stdout = old_stdout
    new_mods = sorted(set(sys.modules) - before) if len(sys.modules) != len(before) else []
    if new_mods:
        forget_near_miss_modules(new_mods)
    return gsym, exc, name, buf.getvalue(), new_mods


def exc_name(e):
    return None if e is None else type(e).__name__


# ------------------------------------------------------------------------------------------
# the model of one elementary import step
# ------------------------------------------------------------------------------------------


def pyscript_file(modname, cfg, app):
    """Which file of the shadow configuration a module name resolves to (documented search order), or None."""
    if cfg != "shadow":
        return None
    p = modname.replace(".", "/")
    cands = []
    if app:
        cands += [f"apps/{p}/__init__.py", f"apps/{p}.py"]
    cands += [f"modules/{p}/__init__.py", f"modules/{p}.py"]
    for c in cands:
        if c in SHADOW_FILES:
            return c
    return None


def classify(step, allow_all, cfg, app):
    kind, mod, attr, asname = step
    if kind == "from" and (mod == "stubs" or mod.startswith("stubs.")):
        return ("stubs-raise", None) if asname else ("stubs-ignore", None)
    f = pyscript_file(mod, cfg, app)
    if f:
        return ("pyscript", f)
    if not allow_all and mod not in allowed():
        return ("reject", None)
    return ("permit", None)


def pyscript_module_public(f, allow_all, cfg):
    """Expected public names of a pyscript module of the shadow configuration, or the exception its body raises."""
    inner = SHADOW_INNER_IMPORTS.get(f)
    if inner and not allow_all and inner not in allowed():
        return None, MNFE
    pub = {MARK: "str:" + f, "zz_func": "pyscript-func:zz_func"}
    pub.update(SHADOW_EXTRA_PUBLIC.get(f, {}))
    return pub, None


def model(case_steps, allow_all, cfg, app, strict):
    """-> dict(exc, bound{name: descr}, objs{name: object or None}, permitted(bool), rejected(bool), masked(set of keys), notes)."""
    bound, objs = {}, {}
    exc = None
    permitted = rejected = mask_getattr = False
    notes = []
    star_loose = set()
    drop_obs = set()
    for step in case_steps:
        kind, mod, attr, asname = step
        verdict, f = classify(step, allow_all, cfg, app)
        notes.append(verdict)
        if verdict == "reject" or verdict == "stubs-raise":
            rejected = True
            exc = MNFE
            break
        if verdict == "stubs-ignore":
            continue
        if verdict == "pyscript":
            pub, e = pyscript_module_public(f, allow_all, cfg)
            if e:
                exc = e
                rejected = True
                break
            if kind == "import":
                key = asname or mod.split(".")[0]
                if not asname and "." in mod:
                    # CPython would bind the top-level package; pyscript packages do not load parents
                    if KNOWN_FINDING_DOTTED_IMPORT_BINDS_DOTTED_KEY and not strict:
                        drop_obs.add(mod)
                        notes.append("masked:dotted-key")
                        continue
                    pf = pyscript_file(mod.split(".")[0], cfg, app)
                    bound[key], objs[key] = "pyscript-module:" + str(pf), None
                else:
                    bound[key], objs[key] = "pyscript-module:" + f, None
            elif attr == "*":
                for k, d in pub.items():
                    bound[k], objs[k] = d, None
            else:
                if attr not in pub:
                    exc = "ImportError"
                    break
                key = asname or attr
                bound[key], objs[key] = pub[attr], None
            continue
        # permitted import of an installed module: CPython is the oracle (one fresh namespace per step)
        permitted = True
        g = {"__builtins__": builtins.__dict__}
        try:
            exec(compile(step_text(step), "<c17-oracle>", "exec"), g)  # noqa: S102
        except ModuleNotFoundError:
            exc = MNFE
            break
        except ImportError:
            exc = "ImportError"
            if kind == "from" and KNOWN_FINDING_FROM_IMPORT_IS_PLAIN_GETATTR and not strict:
                mask_getattr = True
                notes.append("masked:getattr")
            break
        except BaseException as e:  # noqa: BLE001
            exc = type(e).__name__
            break
        new = {k: v for k, v in g.items() if k != "__builtins__"}
        if kind == "import" and not asname and "." in mod and KNOWN_FINDING_DOTTED_IMPORT_BINDS_DOTTED_KEY and not strict:
            drop_obs.add(mod)
            new.pop(mod.split(".")[0], None)
            notes.append("masked:dotted-key")
        if kind == "from" and attr == "*":
            m = sys.modules.get(mod)
            if m is not None:
                py_names = {k for k in vars(m) if k[0] != "_"}
                if (py_names != set(new) or hasattr(m, "__getattr__")) and KNOWN_FINDING_STAR_IGNORES_DUNDER_ALL and not strict:
                    star_loose |= py_names ^ set(new)
                    if hasattr(m, "__getattr__"):  # lazily created names of __all__ : dict content depends on history
                        star_loose |= set(getattr(m, "__all__", ()))
                    notes.append("masked:star-all")
        for k, v in new.items():
            bound[k], objs[k] = describe(v), v
    return {"exc": exc, "bound": bound, "objs": objs, "permitted": permitted, "rejected": rejected, "notes": notes,
            "star_loose": star_loose, "drop_obs": drop_obs, "mask_getattr": mask_getattr}


# ------------------------------------------------------------------------------------------
# case runners
# ------------------------------------------------------------------------------------------


def case_stmts(case):
    if case["kind"] == "seq":
        return case["stmts"]
    return [{k: case[k] for k in ("name", "form", "attr", "child", "level") if k in case}]


def purge_submodule(pkg, sub):
    full = pkg + "." + sub
    for k in [k for k in sys.modules if k == full or k.startswith(full + ".")]:
        sys.modules.pop(k, None)
    m = sys.modules.get(pkg)
    if m is not None and isinstance(getattr(m, sub, None), types.ModuleType):
        try:
            delattr(m, sub)
        except AttributeError:
            pass


async def run_import_case(case):
    allow_all, cfg, app = bool(case.get("allow_all")), case.get("cfg", "plain"), bool(case.get("app"))
    strict = bool(case.get("strict"))
    mode = case.get("mode", "direct")
    stmts = case_stmts(case)
    texts = [render(s) for s in stmts]
    src = wrap(texts, mode)
    allsteps = [x for s in stmts for x in steps(s)]
    if KNOWN_FINDING_FROM_IMPORT_IS_PLAIN_GETATTR and not strict and any(s["form"] in ("from_missing", "from_submodule") for s in stmts):
        if all(classify(x, allow_all, cfg, app)[0] == "permit" for x in allsteps):
            return {"expected": "skipped", "observed": "skipped", "nontrivial": False,
                    "classes": ["skipped:KNOWN_FINDING_FROM_IMPORT_IS_PLAIN_GETATTR"], "detail": {"script": src}}
    for s in stmts:
        if s["form"] == "from_submodule":
            purge_submodule(s["name"], s["attr"])
    if cfg == "shadow":
        ENV.clear_contexts()
    g, e, ctxname, out, new_mods = await run_script(src, app=app)
    for s in stmts:
        if s["form"] == "from_submodule":
            purge_submodule(s["name"], s["attr"])
    m = model(allsteps, allow_all, cfg, app, strict)

    # ---- observed namespace
    obs_exc = exc_name(e)
    glob = {k: v for k, v in g.items() if not is_unbound(v)}
    stray = {}
    if mode == "func":
        ns = dict(glob.get("zz_r")) if isinstance(glob.get("zz_r"), dict) else {}
        stray = {k: v for k, v in glob.items() if k not in HARNESS_NAMES}
    elif mode == "class":
        ns = {}
        c = glob.get("zz_C")
        if c is not None:
            c = unwrap(c)
            ns = {k: v for k, v in vars(c).items() if not (k.startswith("__") and k.endswith("__"))}
        stray = {k: v for k, v in glob.items() if k not in HARNESS_NAMES}
    else:
        ns = {k: v for k, v in glob.items() if k not in HARNESS_NAMES}
    if mode == "try" and "zz_caught" in glob:
        obs_exc = "caught:" + str(glob["zz_caught"])
    ns.pop("__builtins__", None)
    exp_exc = m["exc"]
    if mode == "try" and exp_exc in (MNFE, "ImportError"):
        exp_exc = "caught:" + exp_exc
    if m["mask_getattr"] and obs_exc == "AttributeError":
        obs_exc = exp_exc
    exp_bound = dict(m["bound"])
    obs_bound = {}
    for k, v in ns.items():
        v = unwrap(v) if not is_unbound(v) else v
        d = describe(v)
        if k in m["objs"] and m["objs"][k] is not None and m["objs"][k] is not v:
            d += "#not-the-cpython-object"
        obs_bound[k] = d
    for k in m["drop_obs"]:
        obs_bound.pop(k, None)
    for k in m["star_loose"]:
        exp_bound.pop(k, None)
        obs_bound.pop(k, None)
    if mode in ("func", "class") and m["exc"] is not None:
        # the inner namespace is not observable after an exception; only the globals are
        exp_bound, obs_bound = {}, {}
    for k, v in stray.items():
        obs_bound["global:" + k] = describe(v)
    expected = {"exc": exp_exc, "bound": exp_bound}
    observed = {"exc": obs_exc, "bound": obs_bound}
    if not m["permitted"]:
        expected["new_sys_modules"] = []
        observed["new_sys_modules"] = new_mods
    if out:
        observed["stdout"] = out
    names = [s["name"] for s in stmts]
    shadow = cfg == "shadow" and any(n[0] == "pyscript" for n in [classify(x, allow_all, cfg, app) for x in allsteps])
    nontrivial = shadow or (not allow_all and any(related(x[1]) for x in allsteps if classify(x, allow_all, cfg, app)[0] == "reject"))
    classes = [f"form:{s['form']}" for s in stmts] + [f"mode:{mode}", f"allow_all:{allow_all}", f"cfg:{cfg}" + ("+app" if app else "")]
    classes += sorted({"verdict:" + n for n in m["notes"]})
    if any(n in allowed() for n in names):
        classes.append("name:allow-listed")
    return {"expected": expected, "observed": observed, "nontrivial": bool(nontrivial), "classes": classes,
            "detail": {"script": src, "exception": repr(e)[:300], "model": m["notes"]}}


async def run_rel_case(case):
    """Relative from-imports: never resolve to an installed module."""
    allow_all, cfg, app = bool(case.get("allow_all")), case.get("cfg", "plain"), bool(case.get("app"))
    strict = bool(case.get("strict"))
    src = render(case)
    if cfg == "shadow":
        ENV.clear_contexts()
    if KNOWN_FINDING_RELATIVE_FALLS_BACK_TO_ABSOLUTE and not strict and case["form"] == "rel_from" and app and (
        allow_all or case["name"] in allowed()
    ):
        return {"expected": "skipped", "observed": "skipped", "nontrivial": False,
                "classes": ["skipped:KNOWN_FINDING_RELATIVE_FALLS_BACK_TO_ABSOLUTE"], "detail": {"script": src}}
    g, e, ctxname, out, new_mods = await run_script(src, app=app)
    bound = {k: describe(v) for k, v in g.items() if not is_unbound(v) and k != "__builtins__"}
    observed = {"exc_is_ImportError": isinstance(e, ImportError), "bound": bound}
    expected = {"exc_is_ImportError": True, "bound": {}}
    return {"expected": expected, "observed": observed, "nontrivial": related(case["name"]) or case["name"] in allowed(),
            "classes": ["form:" + case["form"], f"allow_all:{allow_all}", f"cfg:{cfg}" + ("+app" if app else "")],
            "detail": {"script": src, "exception": repr(e)[:300]}}


async def run_builtin_case(case):
    name, ctx = case["name"], case["ctx"]
    strict = bool(case.get("strict"))
    src = BUILTIN_CONTEXTS[ctx].format(N=name)
    real = getattr(builtins, name, None)
    forbidden = name in BUILTIN_FORBIDDEN or name in BUILTIN_EXTRA_FORBIDDEN or name == "__builtins__"
    if ctx in NATIVE_BODY_CONTEXTS and KNOWN_FINDING_NATIVE_BODY_READS_BUILTINS and not strict and (forbidden or name == "print"):
        return {"expected": "skipped", "observed": "skipped", "nontrivial": False,
                "classes": ["skipped:KNOWN_FINDING_NATIVE_BODY_READS_BUILTINS"], "detail": {"script": src}}
    if name == "__builtins__" and ctx in AFTER_NATIVE_CONTEXTS and KNOWN_FINDING_BUILTINS_DICT_GLOBAL_AFTER_NATIVE_DEF and not strict:
        return {"expected": "skipped", "observed": "skipped", "nontrivial": False,
                "classes": ["skipped:KNOWN_FINDING_BUILTINS_DICT_GLOBAL_AFTER_NATIVE_DEF"], "detail": {"script": src}}
    g, e, ctxname, out, new_mods = await run_script(src)
    glob = {k: unwrap(v) for k, v in g.items() if not is_unbound(v)}
    text_ctx = ctx in ("fstring", "attribute")  # zz_x is text derived from the value

    def is_real(v):
        if name == "__builtins__":
            return v is builtins.__dict__ or v is builtins
        return real is not None and v is real

    def val_descr(v):
        if is_real(v):
            return "real-builtin:" + name
        if isinstance(v, types.MethodType) and isinstance(v.__self__, logging.Logger):
            if v.__self__.name == "custom_components.pyscript." + ctxname:
                return "method-of-script-logger"
            return "method-of-logger:" + v.__self__.name
        if isinstance(v, str):
            if text_ctx and name == "print":
                return "text-of-real-print" if v in (f"{real}", "print") else "text-of-something-else"
            return "str:" + v[:80]
        return describe(v)

    leaks = sorted(k for k, v in glob.items() if k != "__builtins__" and is_real(v))
    observed = {"exc": exc_name(e), "zz_x": val_descr(glob["zz_x"]) if "zz_x" in glob else "<unbound>", "names_holding_real_builtin": leaks}
    if forbidden:
        expected = {"exc": "NameError", "zz_x": "<unbound>", "names_holding_real_builtin": []}
        if ctx == "try":
            expected = {"exc": None, "zz_x": "str:caught-NameError", "names_holding_real_builtin": []}
        if observed["exc"] == "UnboundLocalError":
            observed["exc"] = "NameError"  # a subclass
    elif name == "print":
        expected = {"exc": None, "zz_x": "text-of-something-else" if text_ctx else "method-of-script-logger", "names_holding_real_builtin": []}
    else:
        want = "real-builtin:" + name
        if ctx == "fstring":
            want = "str:" + f"{real}"[:80]
        if ctx == "attribute":
            want = "str:" + name
        expected = {"exc": None, "zz_x": want, "names_holding_real_builtin": leaks}
    if out:
        observed["stdout"] = out
    nontrivial = forbidden and (ctx in AFTER_NATIVE_CONTEXTS or ctx in ("eval", "exec", "eval_in_func", "exec_in_func", "eval_eval", "global_decl"))
    return {"expected": expected, "observed": observed, "nontrivial": nontrivial,
            "classes": ["builtin:" + name, "builtin-ctx:" + ctx], "detail": {"script": src, "exception": repr(e)[:300]}}


TRIGEXPR_PRELUDE = "zz_seen = []\ndef zz_probe(v):\n    zz_seen.append(v)\n    return True\n"
TRIGEXPR_CONTEXTS = {
    # the name is evaluated inside the expression string of a trigger / guard / filter (in the expression's own evaluation
    # context, and from a script function the expression calls)
    "event_filter": "@event_trigger('zz_ev', \"zz_probe({N})\")\ndef zz_f(**kw):\n    zz_seen.append('ran')\n",
    "state_trigger_expr": "@state_trigger(\"pyscript.zzv == '1' and zz_probe({N})\")\ndef zz_f(**kw):\n    zz_seen.append('ran')\n",
    "state_active_expr": "@event_trigger('zz_ev')\n@state_active(\"zz_probe({N})\")\ndef zz_f(**kw):\n    zz_seen.append('ran')\n",
    "event_filter_eval": "@event_trigger('zz_ev', \"zz_probe(eval('{N}'))\")\ndef zz_f(**kw):\n    zz_seen.append('ran')\n",
}


async def exec_trigexpr(case):
    from vlib import l3

    name, ctx = case["name"], case["ctx"]
    src = TRIGEXPR_PRELUDE + TRIGEXPR_CONTEXTS[ctx].format(N=name)
    buf = io.StringIO()
    old_stdout = sys.stdout
    try:
        async with l3.Integ({"zz.py": src}, legacy=case["legacy"], initial_states={"pyscript.zzv": ("0", {})}) as it:
            from custom_components.pyscript.global_ctx import GlobalContextMgr

            sys.stdout = buf
            it.fire("zz_ev", {"k": 1})
            it.set_state("pyscript.zzv", "1")
            await it.settle(2)
            gctx = GlobalContextMgr.get("file.zz")
            seen = list(unwrap(gctx.global_sym_table.get("zz_seen")) or []) if gctx else None
            sys.stdout = old_stdout
            await it.unload()
    finally:
        sys.stdout = old_stdout
    return seen, buf.getvalue(), src


def run_trigexpr_case(case):
    """Reachability of a builtin as a plain name inside trigger / guard / filter expression strings: the whole integration
    with a real script file, both subsystems."""
    from vlib import l3

    name, ctx = case["name"], case["ctx"]
    real = getattr(builtins, name, None)
    forbidden = name in BUILTIN_FORBIDDEN or name in BUILTIN_EXTRA_FORBIDDEN
    seen, out, src = l3.run_case(exec_trigexpr, case)
    descr = []
    for v in seen or []:
        if real is not None and v is real:
            descr.append("real-builtin:" + name)
        elif v == "ran":
            descr.append("ran")
        else:
            descr.append("other")
    observed = {"loaded": seen is not None, "seen": descr, "stdout": out}
    if forbidden:
        expected = {"loaded": True, "seen": [], "stdout": ""}
    elif name == "print":
        # the logger-backed print or no print at all, but never the real one
        expected = {"loaded": True, "seen": [d for d in descr if d != "real-builtin:print"], "stdout": ""}
    else:
        expected = {"loaded": True, "seen": ["real-builtin:" + name, "ran"], "stdout": ""}
    return {"expected": expected, "observed": observed, "nontrivial": forbidden or name == "print",
            "classes": ["builtin:" + name, "builtin-ctx:" + ctx, "legacy" if case["legacy"] else "new"], "detail": {"script": src}}


class _Collector(logging.Handler):
    def __init__(self):
        super().__init__(level=logging.DEBUG)
        self.records = []

    def emit(self, record):
        try:
            msg = record.getMessage()
        except BaseException as e:  # noqa: BLE001
            msg = f"<getMessage raised {type(e).__name__}>"
        self.records.append([record.name, record.levelname, msg])


_INTERNAL_LOGGERS = None


def internal_loggers():
    global _INTERNAL_LOGGERS
    if _INTERNAL_LOGGERS is None:
        import custom_components.pyscript as pkg

        names = {"custom_components.pyscript"}
        for m in pkgutil.walk_packages(pkg.__path__, "custom_components.pyscript."):
            names.add(m.name)
        _INTERNAL_LOGGERS = names
    return _INTERNAL_LOGGERS


async def run_log_case(case):
    func, ctx, msg = case["func"], case["ctx"], case["msg"]
    stmt = f"{func}({msg})"
    src = LOG_CONTEXTS[ctx].format(F=func, M=msg, S=stmt)
    if cfg_is_shadow(case):
        ENV.clear_contexts()
    parent = logging.getLogger("custom_components.pyscript")
    coll = _Collector()
    old_level = parent.level
    old_disable = logging.root.manager.disable
    internal = internal_loggers()
    logging.disable(logging.NOTSET)
    parent.setLevel(logging.DEBUG)
    parent.addHandler(coll)
    old_prop = parent.propagate
    parent.propagate = False
    try:
        g, e, ctxname, out, new_mods = await run_script(src)
    finally:
        parent.removeHandler(coll)
        parent.setLevel(old_level)
        parent.propagate = old_prop
        logging.disable(old_disable)
    recs = [[r[0].replace(ctxname, "<ctx>"), r[1], r[2]] for r in coll.records if r[0] not in internal]
    text = eval(msg)  # noqa: S307 - literal from LOG_MESSAGES
    level = LOG_FUNCS[func]
    observed = {"exc": exc_name(e), "records": recs, "stdout": out}
    exp_level = level or (recs[0][1] if recs else "DEBUG")
    expected = {"exc": None, "records": [["custom_components.pyscript.<ctx>", exp_level, text]], "stdout": ""}
    return {"expected": expected, "observed": observed, "nontrivial": True, "classes": ["log:" + func, "log-ctx:" + ctx],
            "detail": {"script": src, "exception": repr(e)[:300]}}


def cfg_is_shadow(case):
    return case.get("cfg") == "shadow"


RUNNERS = {"import": run_import_case, "seq": run_import_case, "rel": run_rel_case, "builtin": run_builtin_case, "log": run_log_case,
           "trigexpr": None}


def env_key(case):
    return (bool(case.get("allow_all")), case.get("cfg", "plain"))


# ------------------------------------------------------------------------------------------
# the check
# ------------------------------------------------------------------------------------------


class C17(ModelCheck):
    prop = PROP
    shrink_key = "stmts"
    rule = (
        "Parameter ALLOWED_IMPORTS is read from const.py at run time; the allow-list is matched on the full dotted name as "
        "written (exact, case-sensitive). allow_all_imports=False: every top-level module name known to the interpreter "
        "(sys.stdlib_module_names + importlib.metadata.packages_distributions + pkgutil.iter_modules; names only) + the "
        "first-level submodules of every installed package (first 4 per package in quick; all, plus the first 12 second-level children of each, in "
        "thorough; all children of a parent of an allow-listed name) + a fixed submodule list + near-misses of every "
        "allow-listed name (prefix, suffix, truncation, case change, parent, child, sibling, re-rooted) + the allow-listed "
        "names themselves x forms {import N; import N as x; from N import a; from N import a as x; from N import *; import "
        "N.child; import N, M; import M, N} x placements {script text, exec(text), eval(\"exec(text)\"), function body, class body, "
        "try/except ImportError}. Oracle per elementary step: from-import below 'stubs' -> ignored (with alias: "
        "ModuleNotFoundError as coded); name resolves to a file under pyscript/modules (or pyscript/apps for an app "
        "context) -> the pyscript module (its marker variable); not allow_all and name not in ALLOWED_IMPORTS -> "
        "ModuleNotFoundError (an ImportError catchable in the script), no name bound beyond earlier steps, no new "
        "sys.modules entry; otherwise exactly CPython's outcome of the same statement (exception type, bound names, "
        "object identity). allow_all_imports=True: ~45 harmless standard-library modules incl. dotted and non-existent "
        "ones + the allow-list, all forms and placements, CPython as oracle. Shadowing configuration directory: "
        "pyscript/modules/{subprocess.py, socket/__init__.py, socket/sub.py, json.py, string/__init__.py, zz_both(.py and "
        "package), modules importing os / math / the shadowing subprocess} and pyscript/apps/{shutil.py, ctypes/, "
        "subprocess.py} x script and app contexts x both option values. Relative from-imports never bind. Builtins: open, "
        "compile, input, breakpoint, memoryview (+ __import__, __builtins__) read as a plain name in " + str(len(BUILTIN_CONTEXTS) - len(NATIVE_BODY_CONTEXTS)) + " syntactic contexts (generator expressions are not implemented by the interpreter) "
        "(module, function, nested/async function, global declaration, default argument, class body, method, "
        "comprehensions, eval/exec text at module and function level, f-string, attribute, after a lambda / "
        "@pyscript_compile / @pyscript_executor definition ...) -> NameError and no global holds the real builtin; print "
        "never is builtins.print but a method of the logger custom_components.pyscript.<ctx>; len/sorted/isinstance stay "
        "the real builtins (anti-vacuity). print / log.debug/info/warning/error x 7 contexts x 4 messages -> exactly one "
        "record on logger custom_components.pyscript.<ctx> with the level of the function name and the message text, "
        "nothing on sys.stdout. Random part: sequences of 2-4 import statements (names biased to near-misses and "
        "allow-listed) in one script, sequential oracle. Non-trivial = a rejected name sharing a prefix or top-level package "
        "with an allow-listed one, a case resolved to a shadowing file, a forbidden builtin read through eval/exec text or "
        "after a native definition, or a log case; distinct by case content."
    )
    assumptions = [
        "the enumeration of installed modules is the one of the interpreter running the check (/venv) and is names-only: rejected names are never imported by the harness",
        "CPython's result of the same single import statement in an empty namespace is the reference for permitted imports",
        "pyscript modules are recognised by a marker variable written into the files of a temporary configuration directory; loaded module contexts are dropped before every shadowing case",
        "hass.async_add_executor_job runs its job inline on the event-loop thread (Home Assistant's executor is trusted, not under test)",
        "near-miss names that are not installed are importable as harmless in-memory packages (finder appended to sys.meta_path), so permitting one is observable",
        "the `as` form of a from-import below 'stubs' follows the code (ModuleNotFoundError), the statement only covers the plain form",
        "shapes behind KNOWN_FINDING_* constants are masked (dotted plain import key, __all__ of star imports, getattr-style from-import, relative fallback, native lambda/@pyscript_compile bodies, __builtins__ global after a native definition)",
    ]

    def __init__(self):
        self._in_shard = False
        self._counts = {}

    # ---------------------------------------------------------------- enumeration
    def exhaustive_cases(self, tier):
        return list(self.iter_cases(tier))

    def iter_cases(self, tier):
        """The whole enumeration, grouped by environment (allow_all_imports, configuration); lazily, because the
        thorough tier has several hundred thousand restriction cases."""
        names, counts = enumerate_names(tier)
        counts["names"] = len(names)
        self._counts = counts
        n_restrict = 0
        for c in self.restriction_cases(names):
            n_restrict += 1
            yield c
        counts["restriction_cases"] = n_restrict
        rest = self.other_cases()
        rest.sort(key=lambda c: (env_key(c)[1], env_key(c)[0]))  # stable: (plain, False) first, one environment after the other
        yield from rest

    def restriction_cases(self, names):
        # (1) restrictions, allow_all_imports=False
        for n in names:
            is_allowed = n in allowed()
            attr = pick_attr(n) if is_allowed else "zz_attr"
            for form in FORMS:
                for mode in MODES:
                    if form == "from_star" and mode in ("func", "class"):
                        continue  # SyntaxError in CPython inside a function; class body: not comparable
                    c = {"kind": "import", "allow_all": False, "cfg": "plain", "name": n, "form": form, "mode": mode, "attr": attr}
                    if form == "import_child" and is_allowed:
                        c["child"] = {"json": "decoder", "homeassistant.const": "zz_child", "re": "zz_child"}.get(n, "zz_child")
                    yield c

    def other_cases(self):
        cases = []
        # (2) allow_all_imports=True
        for n in HARMLESS + sorted(allowed()):
            attr = pick_attr(n)
            for form in FORMS:
                for mode in MODES:
                    if form == "from_star" and mode in ("func", "class"):
                        continue
                    cases.append({"kind": "import", "allow_all": True, "cfg": "plain", "name": n, "form": form, "mode": mode, "attr": attr})
        # stubs with the option set, and a few disallowed names for contrast are covered in (1)
        for n in ("stubs", "stubs.pyscript_builtins", "stubs.a.b"):
            for form in ("from", "from_star", "from_as", "import"):
                cases.append({"kind": "import", "allow_all": True, "cfg": "plain", "name": n, "form": form, "mode": "direct", "attr": "zz_attr"})
        # getattr-style from-import (known finding shapes)
        for allow_all in (False, True):
            for n in sorted(allowed()) + (HARMLESS[:12] if allow_all else []):
                cases.append({"kind": "import", "allow_all": allow_all, "cfg": "plain", "name": n, "form": "from_missing", "mode": "direct"})
            subs = [("json", "tool")] + ([("email.mime", "audio"), ("xml.dom", "pulldom"), ("concurrent.futures", "process")] if allow_all else [])
            for n, a in subs:
                cases.append({"kind": "import", "allow_all": allow_all, "cfg": "plain", "name": n, "form": "from_submodule", "mode": "direct", "attr": a})
        # (3) shadowing files
        for allow_all in (False, True):
            for app in (False, True):
                for n in SHADOW_NAMES:
                    for form in FORMS:
                        for mode in ("direct", "exec", "func", "try"):
                            if form == "from_star" and mode == "func":
                                continue
                            cases.append({"kind": "import", "allow_all": allow_all, "cfg": "shadow", "app": app, "name": n, "form": form,
                                          "mode": mode, "attr": MARK})
                for n in ("json", "shutil", "subprocess", "os", "zz_plainmod", "zz_nofile"):
                    for lvl in (1, 2):
                        cases.append({"kind": "rel", "allow_all": allow_all, "cfg": "shadow", "app": app, "name": n, "form": "rel_from", "level": lvl, "attr": "dumps"})
                        cases.append({"kind": "rel", "allow_all": allow_all, "cfg": "shadow", "app": app, "name": n, "form": "rel_import", "level": lvl})
        for allow_all in (False, True):
            for n in ("json", "subprocess", "os", "math"):
                cases.append({"kind": "rel", "allow_all": allow_all, "cfg": "plain", "name": n, "form": "rel_from", "level": 1, "attr": "dumps"})
                cases.append({"kind": "rel", "allow_all": allow_all, "cfg": "plain", "name": n, "form": "rel_import", "level": 1})
        # (4) builtins
        for allow_all in (False, True):
            for name in BUILTIN_FORBIDDEN + BUILTIN_EXTRA_FORBIDDEN + ["__builtins__", "print"] + BUILTIN_CONTROL:
                for ctx in BUILTIN_CONTEXTS:
                    if ctx == "global_decl" and name not in BUILTIN_FORBIDDEN + BUILTIN_EXTRA_FORBIDDEN:
                        continue  # a declared global never falls back to builtins in pyscript: not part of this property
                    cases.append({"kind": "builtin", "allow_all": allow_all, "cfg": "plain", "name": name, "ctx": ctx})
        # (4b) builtins inside trigger / guard / filter expression strings
        for name in BUILTIN_FORBIDDEN + BUILTIN_EXTRA_FORBIDDEN + ["print"] + BUILTIN_CONTROL:
            for ctx in TRIGEXPR_CONTEXTS:
                for legacy in (False, True):
                    cases.append({"kind": "trigexpr", "allow_all": False, "cfg": "plain", "name": name, "ctx": ctx, "legacy": legacy})
        # (5) print / log
        for func in LOG_FUNCS:
            for ctx in LOG_CONTEXTS:
                for msg in LOG_MESSAGES:
                    cases.append({"kind": "log", "allow_all": False, "cfg": "plain", "func": func, "ctx": ctx, "msg": msg})
        return cases

    def n_random(self, tier):
        return {"quick": 320, "thorough": 8000}[tier]

    def gen(self, R):
        names = self._rand_names
        near = self._rand_near
        allow = sorted(allowed())
        stmts = []
        for _ in range(R.int(2, 4)):
            pool = R.weighted([(3, allow), (4, near), (3, names)])
            n = R.choice(pool)
            form = R.choice(FORMS)
            stmts.append({"name": n, "form": form, "attr": pick_attr(n) if n in allowed() else "zz_attr"})
        mode = R.choice(["direct", "exec", "try", "eval_exec"])
        return {"kind": "seq", "allow_all": False, "cfg": "plain", "mode": mode, "stmts": stmts}

    # ---------------------------------------------------------------- execution
    def run(self, case):
        case = json.loads(json.dumps(case))
        try:
            if case["kind"] == "trigexpr":
                # the whole integration on its own (virtual-clock) loop.  The bare-interpreter environment must not be open
                # meanwhile: the integration harness resets pyscript's class-level tables and would orphan that
                # environment's reaper task (a pending task_reaper on a closed loop spins for ever when it is collected)
                if ENV.key is not None:
                    ENV.close(final=False)
                return run_trigexpr_case(case)
            ENV.ensure(*env_key(case))
            return ENV.run(RUNNERS[case["kind"]](case))
        finally:
            if not self._in_shard:
                ENV.close()

    def run_shard(self, tier, shard_i, shard_n):
        res = core.ShardResult()
        self._in_shard = True
        try:
            all_cases = list(self.iter_cases(tier))
            # the whole-integration cases run first, on loops of their own, before the bare-interpreter environment exists
            all_cases.sort(key=lambda c: c["kind"] != "trigexpr")
            regress_done = False
            for idx, c in enumerate(all_cases):
                if shard_i == 0 and not regress_done and c["kind"] != "trigexpr":
                    regress_done = True
                    for rc in self.fixed_regress():
                        self.check_case(res, rc, "regress")
                if idx % shard_n != shard_i:
                    continue
                if res.counters.get("mismatch_total", 0) >= 100:
                    break
                self.check_case(res, c, "exhaustive")
                res.count("exhaustive_cases")
            names, _ = enumerate_names(tier)
            self._rand_names = names
            self._rand_near = sorted(n for n in names if related(n))
            n = self.n_random(tier) // shard_n
            pending = []
            done = b = 0
            while done < n:
                k = min(100, n - done)
                core.run_hypothesis(lambda R: pending.append(self.gen(R)), k, core.seed() * 100003 + shard_i * 1009 + b)
                done += k
                b += 1
            for c in pending:
                if res.counters.get("mismatch_total", 0) >= 100:
                    break
                self.check_case(res, c, "random")
            res.count("random_cases", len(pending))
            if shard_i == 0:
                for k, v in self._counts.items():
                    res.count("enum:" + k, v)
                res.count("enum:near_miss_modules_created", _PYLIB[1] if len(_PYLIB) > 1 else 0)
        finally:
            self._in_shard = False
            ENV.close()
        return res

    def bucket(self, case, r):
        exp, obs = r["expected"], r["observed"]
        k = case["kind"]
        if k in ("import", "seq"):
            forms = "+".join(sorted({s["form"] for s in case_stmts(case)}))
            what = "exc" if exp.get("exc") != obs.get("exc") else "bound" if exp.get("bound") != obs.get("bound") else "sys.modules"
            return (f"{k}|{forms}|{case.get('mode')}|allow_all={bool(case.get('allow_all'))}|{case.get('cfg')}{'+app' if case.get('app') else ''}|"
                    f"{what}|exp={exp.get('exc')}|obs={obs.get('exc')}")
        if k == "rel":
            return f"rel|{case['form']}|allow_all={bool(case.get('allow_all'))}|{case.get('cfg')}{'+app' if case.get('app') else ''}"
        if k == "builtin":
            return f"builtin|{case['name']}|{case['ctx']}|obs={obs.get('exc')}"
        if k == "trigexpr":
            return f"trigexpr|{case['name']}|{case['ctx']}|{'legacy' if case['legacy'] else 'new'}"
        return f"log|{case['func']}|{case['ctx']}"

    def attribute(self, case, r):
        for f in core.open_findings(PROP):
            fn = ATTRIBUTORS.get(f["id"])
            if fn and fn(case, r):
                return f["id"]
        return None

    def main(self, tier, **kw):
        return super().main(tier, extra={"exhaustive": True}, **kw)


ATTRIBUTORS = {}
CHECK = C17()


def run_shard(tier, i, n):
    return CHECK.run_shard(tier, i, n)


def replay(path):
    return CHECK.replay(path)


def main(tier):
    return CHECK.main(tier)
