"""C14 - every run is an independent task whose exit always cleans up (fault injection on the virtual clock)."""

from __future__ import annotations

import json

from vlib import core, l3
from vlib.modelcheck import ModelCheck

PROP = "C14"

SCRIPT = """
tasks = {}

def cb0(*args, **kw):
    vrec('cb', 0, list(args), kw)

def cb1(*args, **kw):
    vrec('cb', 1, list(args), kw)

def cb_raise(*args, **kw):
    vrec('cb', 'raise', list(args), kw)
    raise ValueError('cb failed')

def cb_sleep(*args, **kw):
    vrec('cb', 'sleep', list(args), kw)
    vcbphase(kw.get('tag'))
    task.sleep(0.55)
    vrec('cbend', 'sleep', kw.get('tag'))

def cb_mod(*args, **kw):
    vrec('cb', 'mod', list(args), kw)
    task.remove_done_callback(task.current_task(), cb0)
    task.add_done_callback(task.current_task(), cb1, 99, tag=kw.get('tag'))

CBS = {'cb0': cb0, 'cb1': cb1, 'cb_raise': cb_raise, 'cb_sleep': cb_sleep, 'cb_mod': cb_mod}

def run_steps(pid, steps):
    vreg(pid)
    tasks[pid] = task.current_task()
    vrec('begin', pid)
    for i in range(len(steps)):
        st = steps[i]
        vrec('step', pid, i)
        op = st[0]
        if op == 'sleep':
            task.sleep(st[1])
        elif op == 'create':
            tasks[st[1]] = task.create(run_steps, st[1], st[2])
        elif op == 'wait':
            t = tasks[st[1]]
            task.wait({t})
            res = None
            if not t.cancelled():
                res = t.result()
            vrec('status', pid, st[1], t.done(), t.cancelled(), res)
        elif op == 'add_cb':
            task.add_done_callback(tasks[st[1]], CBS[st[2]], st[3], tag=st[1])
        elif op == 'remove_cb':
            task.remove_done_callback(tasks[st[1]], CBS[st[2]])
        elif op == 'cancel_self':
            task.cancel()
        elif op == 'cancel':
            task.cancel(tasks[st[1]])
        elif op == 'raise':
            raise KeyError('boom')
        elif op == 'return':
            vrec('done', pid, i)
            return st[1]
        elif op == 'unique':
            task.unique(st[1])
        elif op == 'unique_km':
            task.unique(st[1], kill_me=True)
        elif op == 'executor':
            try:
                r = task.executor(vnative, st[1])
                vrec('exec', pid, r[1], r[0] != vthread())
            except ValueError as e:
                vrec('exec', pid, 'ValueError', None)
        vrec('done', pid, i)
    vrec('end', pid)
    return 'ret-' + pid

@service
def start(pid=None, steps=None):
    return run_steps(pid, steps)

@event_trigger('go')
def on_event(pid=None, steps=None, **kw):
    run_steps(pid, steps)
"""

CBNAMES = ["cb0", "cb1", "cb_raise"]


def gen_child_steps(R):
    steps = []
    for _ in range(R.int(1, 3)):
        k = R.weighted([(5, "sleep"), (1, "raise"), (2, "return"), (1, "cancel_self"), (1, "executor")])
        if k == "sleep":
            # never a whole number of seconds, also when added up: a child never wakes in the same instant as its
            # parent (which of two runs goes first within one instant is decided by the loop, not by pyscript)
            steps.append(["sleep", R.choice([0.7, 1.7, 2.7])])
        elif k == "raise":
            steps.append(["raise"])
            break
        elif k == "return":
            steps.append(["return", R.choice([7, "x", None, [1, 2]])])
            break
        elif k == "cancel_self":
            steps.append(["cancel_self"])
            break
        else:
            steps.append(["executor", R.choice([3, -1])])
    return steps


def gen(R):
    tasks = []
    n = R.int(2, 4)
    for k in range(n):
        pid = f"t{k}"
        steps = []
        children = []
        for j in range(R.int(2, 6)):
            kind = R.weighted([(5, "sleep"), (3, "create"), (2, "wait"), (5, "add_cb"), (1, "remove_cb"), (1, "raise"), (1, "cancel_child"), (1, "executor"), (1, "cancel_self"), (2, "unique"), (1, "contest"), (1, "usurp")])
            if kind == "sleep":
                steps.append(["sleep", R.choice([1.0, 2.0, 4.0])])
            elif kind == "create":
                cp = f"{pid}c{len(children)}"
                children.append(cp)
                steps.append(["create", cp, gen_child_steps(R)])
            elif kind == "wait" and children:
                steps.append(["wait", R.choice(children)])
            elif kind == "add_cb":
                target = R.choice(children + [pid])
                steps.append(["add_cb", target, R.weighted([(4, "cb0"), (4, "cb1"), (1, "cb_raise"), (2, "cb_sleep"), (1, "cb_mod")]), R.int(0, 9)])
            elif kind == "remove_cb" and steps:
                target = R.choice(children + [pid])
                steps.append(["remove_cb", target, R.choice(CBNAMES[:2])])
            elif kind == "raise":
                steps.append(["raise"])
                break
            elif kind == "cancel_child" and children:
                steps.append(["cancel", R.choice(children)])
            elif kind == "executor":
                steps.append(["executor", R.choice([3, -1])])
            elif kind == "unique":
                steps.append(["unique", f"name-{pid}-{R.int(0, 1)}"])  # also the same name twice
            elif kind == "contest":
                # this run owns a name; a child asks the reaper to cancel a sleeping sibling and, in the same instant,
                # claims the name with kill_me=True: the child has to end at that statement
                if not any(s_[0] == "unique" and s_[1] == f"own-{pid}" for s_ in steps):
                    steps.append(["unique", f"own-{pid}"])
                sib = f"{pid}c{len(children)}"
                children.append(sib)
                steps.append(["create", sib, [["sleep", 4.0]]])
                cp = f"{pid}c{len(children)}"
                children.append(cp)
                steps.append(["create", cp, [["cancel", sib], ["unique_km", f"own-{pid}"], ["sleep", 1.0]]])
                steps.append(["sleep", 2.0])
            elif kind == "usurp":
                # this run owns two names; a child claims one of them (no kill_me): the run is ended by task.unique and
                # both of its names have to be forgotten
                if not any(s_[0] == "unique" and s_[1] == f"own-{pid}" for s_ in steps):
                    steps.append(["unique", f"own-{pid}"])
                steps.append(["unique", f"own2-{pid}"])
                cp = f"{pid}c{len(children)}"
                children.append(cp)
                steps.append(["create", cp, [["unique", f"own-{pid}"], ["sleep", 1.0]]])
                steps.append(["sleep", 2.0])
                break
            elif kind == "cancel_self":
                steps.append(["cancel_self"])
                break
        tasks.append({"pid": pid, "start": float(R.int(0, 4)) + 0.01 * (k + 1), "via": R.choice(["service", "service", "event"]), "steps": steps})
    fault = None
    if R.bool(2, 3):
        victim = R.choice(tasks)
        if R.bool(3, 4):
            # aim at a suspension point of the victim: an instant strictly inside one of its own sleeps
            if not any(s_[0] == "sleep" for s_ in victim["steps"]):
                victim["steps"].insert(R.int(0, len(victim["steps"]) - 1) if len(victim["steps"]) > 1 else 0, ["sleep", 2.0])
            total = sum(s_[1] for s_ in victim["steps"] if s_[0] == "sleep")
            fault = {"pid": victim["pid"], "at": victim["start"] + R.choice([x + 0.5 for x in range(int(total))])}
        else:
            fault = {"pid": victim["pid"], "at": victim["start"] + R.choice([0.5, 1.5, 2.5, 3.5, 5.5])}
    # a second cancellation that arrives while the ended task is suspended inside one of its done-callbacks
    return {"legacy": R.bool(), "tasks": tasks, "fault": fault, "cancel_in_cb": R.bool(1, 2)}


async def execute(case, with_fault=True):
    import asyncio
    import threading

    from custom_components.pyscript.function import Function

    async with l3.Integ({"hello.py": SCRIPT}, legacy=case["legacy"]) as it:
        task_of = {}
        Function.functions["vreg"] = lambda pid: task_of.__setitem__(pid, asyncio.current_task())
        Function.functions["vthread"] = lambda: threading.get_ident()

        def vnative(x):
            if x < 0:
                raise ValueError("neg")
            return (threading.get_ident(), x * 2)

        Function.functions["vnative"] = vnative
        cb_cancelled = []

        def vcbphase(tag):
            # called by the suspending callback from inside the ending task
            tk = asyncio.current_task()
            if not case.get("cancel_in_cb") or cb_cancelled:
                return

            async def later():
                await asyncio.sleep(0.25)
                if not tk.done():
                    cb_cancelled.append(tag)
                    it._vrec("cbcancel", tag)
                    try:
                        await Function.user_task_cancel(tk)
                    except Exception:  # noqa: BLE001
                        pass

            asyncio.ensure_future(later())

        Function.functions["vcbphase"] = vcbphase
        await it.spin()
        base = {"our_tasks": len([t for t in Function.our_tasks if not t.done()]), "task2cb": len(Function.task2cb), "task2context": len(Function.task2context)}
        t0 = it.vt()
        timeline = [(t["start"], "start", t) for t in case["tasks"]]
        if with_fault and case["fault"]:
            timeline.append((case["fault"]["at"], "fault", case["fault"]))
        timeline.sort(key=lambda x: x[0])
        fault_hit = None
        for at, kind, obj in timeline:
            await it.sleep_spin(t0 + at)
            if kind == "start":
                if obj["via"] == "service":
                    await it.hass.services.async_call("pyscript", "start", {"pid": obj["pid"], "steps": obj["steps"]}, blocking=False)
                else:
                    it.fire("go", {"pid": obj["pid"], "steps": obj["steps"]})
            else:
                tk = task_of.get(obj["pid"])
                if tk is not None and not tk.done():
                    fault_hit = round(it.vt() - t0, 2)
                    await Function.user_task_cancel(tk)
            await it.spin()
        await it.sleep_spin(t0 + 60.0)
        await it.settle(2)
        recs = [(round(vt - t0, 3), list(a)) for vt, a, kw in it.records]
        left = {"our_tasks": len([t for t in Function.our_tasks if not t.done()]), "task2cb": len(Function.task2cb), "task2context": len(Function.task2context),
                "unique": len(Function.unique_name2task) + len(Function.unique_task2name)}
        errs = [e[2][-400:] for e in it.errors()]
        ha_errs = [e[2][-300:] for e in it.ha_errors()]
        states = {p: ("cancelled" if t.cancelled() else "done" if t.done() else "pending") for p, t in task_of.items()}
        await it.unload()
    return {"recs": recs, "base": base, "left": left, "errors": errs, "fault_hit": fault_hit, "loop_exc": it.loop_exceptions, "states": states,
            "ha_errors": ha_errs, "cb_cancelled": cb_cancelled}


def per_pid(recs):
    out = {}
    for t, a in recs:
        if a[0] in ("begin", "step", "done", "end", "status", "exec"):
            out.setdefault(a[1], []).append([t] + a)
    return out


def related(case, victim):
    """pids whose behaviour may legitimately change when `victim` is cancelled: the victim, its descendants,
    its ancestors (they wait on / cancel / observe it) and everything those create."""
    fam = set()
    for t in case["tasks"]:
        names = {t["pid"]} | {s[1] for s in t["steps"] if s[0] == "create"}
        if victim in names:
            fam |= names
    return fam


def analyse(case, r_fault, r_clean):
    problems = []
    # 1. independence: tasks unrelated to the victim have identical timed logs with and without the fault
    if case["fault"] and r_fault["fault_hit"] is not None:
        fam = related(case, case["fault"]["pid"])
        a, b = per_pid(r_fault["recs"]), per_pid(r_clean["recs"])
        # a child that is cancelled by its parent while it may sit in task.executor: whether the executor job finished
        # first is decided by the OS thread scheduler, not by the harness - such families are not compared
        racy = set()
        for t in case["tasks"]:
            progs = {t["pid"]: t["steps"]}
            progs.update({s_[1]: s_[2] for s_ in t["steps"] if s_[0] == "create"})
            targets = {s_[1] for st in progs.values() for s_ in st if s_[0] == "cancel"}
            if any(any(x[0] == "executor" for x in progs.get(c, [])) for c in targets):
                racy |= set(progs)
            # likewise a run with children that calls task.executor: what it sees of its children afterwards (ended or
            # not yet) depends on how long the executor thread took in real time
            if len(progs) > 1 and any(x[0] == "executor" for st in progs.values() for x in st):
                racy |= set(progs)
        for pid in set(a) | set(b):
            if pid in fam or pid in racy:
                continue
            la, lb = a.get(pid) or [], b.get(pid) or []
            # same records in the same order at the same virtual instants (loop iterations cost 1 us each and their number
            # depends on how long executor threads take in real time, so instants are compared to 5 ms)
            if len(la) != len(lb) or any(x[1:] != y[1:] or abs(x[0] - y[0]) > 0.005 for x, y in zip(la, lb)):
                problems.append("other-run-disturbed")
    for label, r in (("fault", r_fault), ("clean", r_clean)):
        # 2. done-callbacks: each registered-and-not-removed callback of a task runs exactly once after it ended
        reg = {}  # target pid -> {cbname: arg}  (latest registration per callback function wins)
        order = sorted([x for x in r["recs"] if x[1][0] == "done"], key=lambda x: x[0])
        done_steps = {(x[1][1], x[1][2]) for x in order}
        regs = []
        for t in case["tasks"]:
            progs = [(t["pid"], t["steps"])] + [(s[1], s[2]) for s in t["steps"] if s[0] == "create"]
            for pid, steps in progs:
                for i, s in enumerate(steps):
                    if s[0] in ("add_cb", "remove_cb") and (pid, i) in done_steps:
                        tm = next(x[0] for x in order if x[1][1] == pid and x[1][2] == i)
                        regs.append((tm, s))
        regs.sort(key=lambda x: x[0])
        began = {x[1][1]: x[0] for x in r["recs"] if x[1][0] == "begin"}
        ended_at = {}
        for pid, st in r["states"].items():
            last = [x[0] for x in r["recs"] if x[1][0] in ("step", "done", "end", "begin", "status", "exec") and x[1][1] == pid]
            ended_at[pid] = max(last) if last else None
        for tm, s in regs:
            target = s[1]
            if target not in began:
                continue
            if s[0] == "add_cb":
                reg.setdefault(target, {})[s[2]] = s[3]
            else:
                reg.setdefault(target, {}).pop(s[2], None)
        cbs = [x[1] for x in r["recs"] if x[1][0] == "cb"]
        got = {}
        for c in cbs:
            key = (c[3].get("tag"), f"cb_{c[1]}" if isinstance(c[1], str) else f"cb{c[1]}")
            got.setdefault(key, []).append(c[2])
        for target, m in reg.items():
            if r["states"].get(target) == "pending":
                continue
            names = list(m)
            # open finding C14-callback-raise-stops-others: a raising callback may stop the remaining ones
            # a task cancelled again while one of its callbacks is suspended: whether the remaining callbacks still run
            # is not specified; a callback that changes the callbacks of its own (already ended) task likewise
            # (any cancellation counts - the injected fault or a parent's task.cancel may land there too: the suspending
            # callback began and never reached its end)
            interrupted = {c[3].get("tag") for c in cbs if c[1] == "sleep"} - {x[1][2] for x in r["recs"] if x[1][0] == "cbend"}
            loose = target in r["cb_cancelled"] or target in interrupted or "cb_mod" in names
            for name, arg in m.items():
                g = got.get((target, name), [])
                if len(g) > 1 and not (loose and name == "cb1"):
                    problems.append(f"{label}:callback-ran-twice")
                elif loose:
                    continue
                elif len(g) == 0:
                    problems.append(f"{label}:callback-missing" + ("-with-raising-sibling" if "cb_raise" in names and name != "cb_raise" else ""))
                elif g[0] != [arg]:
                    problems.append(f"{label}:callback-args")
        for (target, name), g in got.items():
            if name not in reg.get(target, {}) and not (name == "cb1" and "cb_mod" in reg.get(target, {})):
                problems.append(f"{label}:removed-callback-ran")
        # 3. wait/result reflect the outcome
        for x in r["recs"]:
            if x[1][0] == "status":
                _, waiter, target, done, cancelled, res = x[1]
                if not done:
                    problems.append(f"{label}:wait-returned-before-done")
                exp_state = r["states"].get(target)
                if cancelled != (exp_state == "cancelled"):
                    problems.append(f"{label}:cancelled-flag")
        # 3b. a run that loses task.unique(name, kill_me=True) against a live owner ends at that statement
        for t in case["tasks"]:
            own = [i for i, s_ in enumerate(t["steps"]) if s_[0] == "unique" and s_[1] == f"own-{t['pid']}"]
            if not own:
                continue
            owned_from = next((x[0] for x in order if x[1][1] == t["pid"] and x[1][2] == own[0]), None)
            for s_ in t["steps"]:
                if s_[0] != "create":
                    continue
                for ci, cs in enumerate(s_[2]):
                    if cs[0] != "unique_km":
                        continue
                    at = next((x[0] for x in r["recs"] if x[1][0] == "step" and x[1][1] == s_[1] and x[1][2] == ci), None)
                    if at is None or owned_from is None or owned_from > at or (ended_at.get(t["pid"]) or 0) <= at:
                        continue
                    if (s_[1], ci) in done_steps or r["states"].get(s_[1]) != "cancelled":
                        problems.append(f"{label}:kill-me-loser-continued")
        # 3c. a run never dies inside task.wait / task.sleep / task.create / task.unique (only cancellation ends it there):
        #     waiting for a task that has already ended is an ordinary wait
        started = {(x[1][1], x[1][2]) for x in r["recs"] if x[1][0] == "step"}
        for t in case["tasks"]:
            progs = [(t["pid"], t["steps"])] + [(s_[1], s_[2]) for s_ in t["steps"] if s_[0] == "create"]
            for pid, steps in progs:
                for i, s_ in enumerate(steps):
                    if s_[0] in ("wait", "sleep", "create", "unique") and (pid, i) in started and (pid, i) not in done_steps and r["states"].get(pid) == "done":
                        problems.append(f"{label}:run-died-in-{s_[0]}")
        # 4. registries are clean at quiescence
        if r["left"]["our_tasks"] != r["base"]["our_tasks"] or r["left"]["task2cb"] != r["base"]["task2cb"] or r["left"]["task2context"] != r["base"]["task2context"] or r["left"]["unique"]:
            problems.append(f"{label}:registry-not-clean")
        if any(s == "pending" for s in r["states"].values()):
            problems.append(f"{label}:task-never-ended")
        # 5. executor
        for x in r["recs"]:
            if x[1][0] == "exec":
                if x[1][2] != "ValueError" and (x[1][3] is not True):
                    problems.append(f"{label}:executor-same-thread")
        if r["loop_exc"]:
            problems.append(f"{label}:loop-exception-handler-invoked")
        if r["ha_errors"]:
            problems.append(f"{label}:exception-reached-home-assistant")
        # 6. the only errors a graph may log are the ones its programs ask for: KeyError('boom') of a raise step and
        #    ValueError('cb failed') of the raising callback (the executor's ValueError is caught by the program)
        #    (task.cancel / add_done_callback aimed at a task that has already ended raise TypeError / KeyError naming
        #    the finished task: what they should do then is not specified, so those are tolerated)
        for e in r["errors"]:
            if "boom" not in e and "cb failed" not in e and "<Task finished" not in e and "<Task cancelled" not in e:
                problems.append(f"{label}:unexpected-error")
    # return values / exceptions: 'return v' -> result v, raise -> None (logged), fall off -> 'ret-pid'
    return sorted(set(problems))


class C14(ModelCheck):
    prop = PROP
    level = "fault_enumeration"
    rule = (
        "task graphs of 2-4 top-level runs (service calls and event triggers) whose programs sleep, create child "
        "tasks (task.create), wait for them (task.wait + done/cancelled/result), add and remove done-callbacks on "
        "themselves and their children (among them a callback that suspends and one that changes the callbacks of its own task; in half of the cases a second cancellation arrives while the ended task is suspended inside its callback), cancel a child or themselves, get ended by a child's task.unique claim while owning two names, raise, return and call task.executor; one fault "
        "(task.cancel of a chosen run at a chosen virtual instant, i.e. at one of its suspension points) is injected and "
        "the same graph is also run fault-free. Oracle: runs unrelated to the victim have identical timestamped logs "
        "with and without the fault; every registered-and-not-removed done-callback runs exactly once with its "
        "arguments after its task ended for any reason, removed ones never; task.wait returns only when the task is "
        "done and cancelled() reflects the outcome; our_tasks / task2cb / task2context / unique tables are back to "
        "their baseline at quiescence; task.executor returns or raises like the plain call and runs on another "
        "thread; the loop's exception handler is never invoked, Home Assistant's core never logs an exception that escaped from a run, and nothing but the exceptions the programs raise on purpose is logged. Non-trivial = the fault lands while a callback is "
        "registered on the victim or one of its relatives; distinct by case content."
    )
    assumptions = ["the interleaving of the executor thread with the loop is left to the OS", "independence is judged in virtual time (CPU cost of a run is invisible by construction)"]
    shrink_key = "tasks"

    def n_random(self, tier):
        return {"quick": 1200, "thorough": 20000}[tier]

    def gen(self, R):
        return gen(R)

    def regress_cases(self):
        return self.fixed_regress()

    def valid(self, case):
        return case["fault"] is None or any(t["pid"] == case["fault"]["pid"] for t in case["tasks"])

    def run(self, case):
        case = json.loads(json.dumps(case))
        r_fault = l3.run_case(execute, case, True)
        r_clean = l3.run_case(execute, case, False) if case["fault"] else r_fault
        problems = analyse(case, r_fault, r_clean)
        has_cb = any(s[0] == "add_cb" for t in case["tasks"] for s in t["steps"])
        return {"expected": [], "observed": problems, "nontrivial": bool(case["fault"] and r_fault["fault_hit"] is not None and has_cb),
                "classes": ["legacy" if case["legacy"] else "new"] + (["fault-hit"] if r_fault["fault_hit"] is not None else ["no-fault"]),
                "detail": {"errors": r_fault["errors"][:2], "states": r_fault["states"], "fault_hit": r_fault["fault_hit"]}}

    def bucket(self, case, r):
        return ("legacy" if case["legacy"] else "new") + "|" + ",".join(sorted({p.split(":")[-1] for p in r["observed"]}))

    def attribute(self, case, r):
        ids = {f["id"] for f in core.open_findings(PROP)}
        probs = {p.split(":")[-1] for p in r["observed"]}
        if "C14-callback-raise-stops-others" in ids and probs and probs <= {"callback-missing-with-raising-sibling"}:
            return "C14-callback-raise-stops-others"
        return None


CHECK = C14()


def run_shard(tier, i, n):
    return CHECK.run_shard(tier, i, n)


def replay(path):
    return CHECK.replay(path)


def main(tier):
    return CHECK.main(tier)
