"""C16 - state variables read and write Home Assistant state faithfully (operation sequences vs a dict model)."""

from __future__ import annotations

import json

from vlib import core, l3
from vlib.modelcheck import ModelCheck

PROP = "C16"
ENTS = ["pyscript.s1", "pyscript.s2", "sensor.t1"]
ATTRS = ["a", "b", "friendly_name"]
VALUES = ["on", "0", 5, 2.5, True, "", "x y", [1, 2], {"k": 1}, -3]
AVALUES = [1, "s", 2.5, None, [1], {"z": 2}, True]

PREAMBLE = """
class NS:
    pass
shadowdom = NS()
shadowdom.ent = 'python-value'
snaps = {}
"""


def lit(v):
    return repr(v)


def gen(R):
    ops = []
    for _ in range(R.int(3, 25)):
        ent = R.choice(ENTS)
        attr = R.choice(ATTRS)
        k = R.weighted([
            (4, "read"), (2, "read_attr"), (4, "assign"), (3, "assign_attr"), (4, "set"), (2, "setattr"), (2, "delete"),
            (1, "delete_attr"), (2, "exist"), (1, "names"), (2, "getattr"), (2, "external"), (1, "external_remove"),
            (2, "snap"), (2, "check_snap"), (1, "assign_snap"), (1, "set_snap"), (1, "precedence"), (2, "virtual"), (1, "rereport"), (1, "external_rereport"), (1, "read_fn"),
        ])
        op = {"op": k, "ent": ent, "attr": attr}
        if k in ("assign", "external"):
            op["val"] = R.choice(VALUES)
            if k == "external":
                op["val"] = str(R.choice(["ext1", "ext2", "0"]))
                op["attrs"] = R.choice([None, {"a": 9}, {}])
        elif k in ("assign_attr", "setattr"):
            op["val"] = R.choice(AVALUES)
        elif k == "set":
            op["val"] = R.choice([None] + VALUES)
            op["new_attributes"] = R.choice([None, None, {}, {"a": 7}, {"b": "q", "c": [1]}])
            op["kw"] = R.choice([None, None, {"a": 3}, {"b": None, "d": 1.5}])
        elif k in ("snap", "check_snap", "assign_snap", "set_snap"):
            op["slot"] = R.choice(["p", "q"])
        elif k == "exist":
            op["with_attr"] = R.bool()
        ops.append(op)
    return {"ops": ops, "legacy": R.bool(1, 4)}


def snippet(op):
    e, a = op["ent"], op["attr"]
    k = op["op"]
    if k == "read":
        return f"_r = {e}\n_out = (str(_r), state.getattr(_r))"
    if k == "read_fn":
        return f"_r = state.get({e!r})\n_out = (str(_r), state.getattr(_r))"
    if k == "read_attr":
        return f"_out = ({e}.{a}, state.get('{e}.{a}'))"
    if k == "assign":
        return f"{e} = {lit(op['val'])}\n_out = None"
    if k == "assign_attr":
        return f"{e}.{a} = {lit(op['val'])}\n_out = None"
    if k == "set":
        args = [repr(e)]
        if op["val"] is not None:
            args.append(lit(op["val"]))
        if op["new_attributes"] is not None:
            args.append("new_attributes=" + lit(op["new_attributes"]))
        for kk, vv in (op["kw"] or {}).items():
            args.append(f"{kk}={lit(vv)}")
        return f"state.set({', '.join(args)})\n_out = None"
    if k == "setattr":
        return f"state.setattr('{e}.{a}', {lit(op['val'])})\n_out = None"
    if k == "delete":
        return f"del {e}\n_out = None" if op["attr"] == "a" else f"state.delete({e!r})\n_out = None"
    if k == "delete_attr":
        return f"state.delete('{e}.{a}')\n_out = None"
    if k == "exist":
        return f"_out = state.exist('{e}.{a}')" if op.get("with_attr") else f"_out = state.exist({e!r})"
    if k == "names":
        return "_out = sorted(state.names('pyscript'))"
    if k == "getattr":
        return f"_out = state.getattr({e!r})"
    if k == "snap":
        return f"snaps[{op['slot']!r}] = {e}\n_out = None"
    if k == "assign_snap":
        # a held snapshot used as the value of an assignment: its value and its attributes are written
        return f"_s = snaps.get({op['slot']!r})\nif _s is not None:\n    {e} = _s\n_out = None"
    if k == "set_snap":
        return f"_s = snaps.get({op['slot']!r})\nif _s is not None:\n    state.set({e!r}, _s, d=1.5)\n_out = None"
    if k == "check_snap":
        return f"_s = snaps.get({op['slot']!r})\n_out = None if _s is None else (str(_s), state.getattr(_s), _s.entity_id)"
    if k == "precedence":
        return "_out = (shadowdom.ent, callable(vtestdom.svc))"
    if k == "virtual":
        # the four virtual fields through every read form: a held snapshot, direct attribute access, state.get
        return (f"_r = {e}\n_out = (_r.entity_id, str(_r.last_changed), str(_r.last_updated), str(_r.last_reported), "
                f"str({e}.last_changed), str({e}.last_updated), str({e}.last_reported), "
                f"str(state.get({e + '.last_changed'!r})), str(state.get({e + '.last_updated'!r})), str(state.get({e + '.last_reported'!r})))")
    if k == "rereport":
        # the same value written again from the script (attributes kept): only last_reported moves
        return f"state.set({e!r}, str({e}))\n_out = None"
    raise AssertionError(k)


def hstr(v):
    """Home Assistant stores str(value)."""
    return str(v)


class Model:
    def __init__(self):
        self.ents = {}  # name -> [value_str, attrs]
        self.snaps = {}

    def apply(self, op):
        """Returns ("ok", value) or ("exc", type name)."""
        e, a, k = op["ent"], op["attr"], op["op"]
        cur = self.ents.get(e)
        if k in ("read", "read_fn"):
            if cur is None:
                return ("exc", "NameError")
            return ("ok", [cur[0], dict(cur[1])])
        if k == "read_attr":
            if cur is None:
                return ("exc", "NameError")
            if a not in cur[1]:
                return ("exc", "AttributeError")
            return ("ok", [cur[1][a], cur[1][a]])
        if k == "assign":
            self.ents[e] = [hstr(op["val"]), dict(cur[1]) if cur else {}]
            return ("ok", None)
        if k in ("assign_attr", "setattr"):
            if cur is None:
                return ("exc", "NameError")
            cur[1][a] = op["val"]
            return ("ok", None)
        if k == "set":
            val = op["val"]
            if val is None:
                if cur is None:
                    return ("skip", None)
                val = cur[0]
            attrs = dict(op["new_attributes"]) if op["new_attributes"] is not None else (dict(cur[1]) if cur else {})
            attrs.update(op["kw"] or {})
            self.ents[e] = [hstr(val), attrs]
            return ("ok", None)
        if k == "delete":
            if cur is None:
                return ("exc", "NameError")
            del self.ents[e]
            return ("ok", None)
        if k == "delete_attr":
            if cur is None:
                return ("exc", "NameError")
            if a not in cur[1]:
                return ("exc", "AttributeError")
            del cur[1][a]
            return ("ok", None)
        if k == "exist":
            if op.get("with_attr"):
                return ("ok", cur is not None and a in cur[1])
            return ("ok", cur is not None)
        if k == "names":
            return ("ok", sorted(n for n in self.ents if n.startswith("pyscript.")))
        if k == "getattr":
            return ("ok", dict(cur[1]) if cur else None)
        if k == "snap":
            if cur is None:
                return ("exc", "NameError")
            self.snaps[op["slot"]] = [cur[0], dict(cur[1]), e]
            return ("ok", None)
        if k in ("assign_snap", "set_snap"):
            s = self.snaps.get(op["slot"])
            if s is not None:
                attrs = dict(s[1])
                if k == "set_snap":
                    attrs["d"] = 1.5
                self.ents[e] = [s[0], attrs]
            return ("ok", None)
        if k == "check_snap":
            s = self.snaps.get(op["slot"])
            return ("ok", None if s is None else [s[0], dict(s[1]), s[2]])
        if k == "precedence":
            return ("ok", ["python-value", True])
        if k == "virtual":
            if cur is None:
                return ("exc", "NameError")
            return ("ok", "virtual-fields-of-home-assistant")  # filled in from Home Assistant's state object by the executor
        if k in ("rereport", "external_rereport"):
            if cur is None:
                return ("exc", "NameError") if k == "rereport" else ("ok", None)
            return ("ok", None)
        if k == "external":
            attrs = dict(op["attrs"]) if op.get("attrs") is not None else (dict(cur[1]) if cur else {})
            self.ents[e] = [op["val"], attrs]
            return ("ok", None)
        if k == "external_remove":
            self.ents.pop(e, None)
            return ("ok", None)
        raise AssertionError(k)


def norm(v):
    return json.loads(json.dumps(v, default=repr))


async def execute(case):
    from custom_components.pyscript.eval import AstEval
    from custom_components.pyscript.function import Function
    from custom_components.pyscript.global_ctx import GlobalContextMgr

    async with l3.Integ({"hello.py": PREAMBLE}, legacy=case["legacy"]) as it:
        async def svc(call):
            return None

        it.hass.services.async_register("vtestdom", "svc", svc)
        it.set_state("vtestdom.svc", "state-value")
        it.set_state("shadowdom.ent", "state-value")
        await it.settle(1)
        gctx = GlobalContextMgr.get("file.hello")
        model = Model()
        trace = []
        for i, op in enumerate(case["ops"]):
            exp = model.apply(op)
            if exp[0] == "skip":
                continue
            if op["op"] == "external":
                cur = it.hass.states.get(op["ent"])
                attrs = op["attrs"] if op.get("attrs") is not None else (dict(cur.attributes) if cur else {})
                it.hass.states.async_set(op["ent"], op["val"], attrs)
                obs = ("ok", None)
            elif op["op"] == "external_remove":
                it.hass.states.async_remove(op["ent"])
                obs = ("ok", None)
            elif op["op"] == "external_rereport":
                # an integration reports the same value and attributes again: only last_reported moves
                cur = it.hass.states.get(op["ent"])
                if cur is not None:
                    it.hass.states.async_set(op["ent"], cur.state, dict(cur.attributes))
                obs = ("ok", None)
            else:
                ast_ctx = AstEval("file.hello", gctx)
                Function.install_ast_funcs(ast_ctx)
                try:
                    ast_ctx.parse(snippet(op))
                    await ast_ctx.eval()
                    obs = ("ok", gctx.global_sym_table.get("_out"))
                except Exception as exc:  # noqa: BLE001 - the property compares exception types
                    obs = ("exc", type(exc).__name__)
            if op["op"] == "virtual" and exp[0] == "ok":
                st = it.hass.states.get(op["ent"])
                if st is not None:
                    exp = ("ok", [st.entity_id] + [str(x) for x in (st.last_changed, st.last_updated, st.last_reported)] * 3)
            await it.settle(1)
            world = {}
            for ent in ENTS:
                st = it.hass.states.get(ent)
                if st is not None:
                    world[ent] = [st.state, dict(st.attributes)]
            step = {"i": i, "op": op["op"], "exp": norm(list(exp)), "obs": norm(list(obs)), "world_exp": norm(model.ents), "world_obs": norm(world)}
            trace.append(step)
            if step["exp"] != step["obs"] or step["world_exp"] != step["world_obs"]:
                break
        errs = [e[2][-200:] for e in it.errors()]
        await it.unload()
    return trace, errs


class C16(ModelCheck):
    prop = PROP
    rule = (
        "sequences of 3-25 operations issued from script code (each a generated snippet evaluated in the file's global "
        "context) and externally over 3 entities x 3 attributes: read DOMAIN.name / state.get (value, attributes, "
        "virtual fields), read attribute, assign value (str/int/float/bool/list/dict), assign attribute, state.set with "
        "every combination of value / new_attributes / keyword attributes, state.setattr, del / state.delete of entity "
        "and attribute, state.exist, state.names, state.getattr, captured snapshots re-inspected later and used as the value of an assignment / state.set, service-over-"
        "state and Python-variable-over-state precedence. After every step the value or exception type the script saw "
        "and Home Assistant's state machine are compared with a dict model. Non-trivial = an attribute-preserving and an "
        "attribute-replacing write to an existing entity; distinct by sequence."
    )
    assumptions = [
        "only valid lower-case entity ids and short state strings are generated",
        "state.set(name) with neither value nor attributes on a missing entity is not generated (undefined by the documentation)",
    ]

    def n_random(self, tier):
        return {"quick": 2400, "thorough": 40000}[tier]

    def gen(self, R):
        return gen(R)

    def run(self, case):
        case = json.loads(json.dumps(case))
        trace, errs = l3.run_case(execute, case)
        bad = [s for s in trace if s["exp"] != s["obs"] or s["world_exp"] != s["world_obs"]]
        if not bad and errs:
            # every snippet's exception is returned to the harness; nothing may be logged
            bad = [{"i": len(trace) - 1, "op": "-", "exp": "no error logged", "obs": errs[0][-200:], "world_exp": None, "world_obs": None}]
        kinds = {o["op"] for o in case["ops"]}
        preserve = any(o["op"] in ("assign", "assign_attr", "setattr") or (o["op"] == "set" and o["new_attributes"] is None) for o in case["ops"])
        replace = any(o["op"] == "set" and o["new_attributes"] is not None for o in case["ops"])
        return {"expected": [], "observed": bad[:1], "nontrivial": preserve and replace, "classes": sorted(kinds)[:0] + (["legacy"] if case["legacy"] else ["new"]),
                "detail": {"errors": errs[:2], "snippet": snippet(case["ops"][bad[0]["i"]]) if bad else None}}

    def bucket(self, case, r):
        s = r["observed"][0]
        what = "result" if s["exp"] != s["obs"] else "state-machine"
        return f"{s['op']}|{what}|exp={s['exp'][0]}|obs={s['obs'][0]}"


CHECK = C16()


def run_shard(tier, i, n):
    return CHECK.run_shard(tier, i, n)


def replay(path):
    return CHECK.replay(path)


def main(tier):
    return CHECK.main(tier)
