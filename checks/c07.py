"""C07 - @state_active / @time_active / hold_off gate every trigger (pure window check + integration)."""

from __future__ import annotations

import asyncio
import datetime as dt
import json

from checks import c06
from vlib import core, l1, l3
from vlib.modelcheck import ModelCheck

PROP = "C07"
US = dt.timedelta(microseconds=1)
TZ = c06.TZ


# ------------------------------------------------------------------------------------------
# structured @time_active specifications
#   {"neg": bool, "kind": "range", "start": D, "end": D} | {"neg": bool, "kind": "cron", "fields": [...]}
# ------------------------------------------------------------------------------------------


def render(sp):
    pre = "not " if sp["neg"] else ""
    if sp["kind"] == "cron":
        return pre + "cron(" + " ".join(sp["fields"]) + ")"
    return pre + f"range({c06.render_dt(sp['start'])}, {c06.render_dt(sp['end'])})"


def dt_for(d, now, startup, sun):
    if d["time"][0] == "now":
        return startup + c06.off_td(d)
    if d["date"] is not None and d["date"][0] == "ymd":
        date = dt.date(*d["date"][1:])
    elif d["date"] is not None:
        date = dt.date(now.year, d["date"][1], d["date"][2])
    else:
        date = now.date()
    return c06.dt_on_date(d, date, startup, sun)


def cron_match(fields, now):
    mins, hrs, doms, mons, dows = [c06.cron_set(f, r) for f, r in zip(fields, [(0, 59), (0, 23), (1, 31), (1, 12), (0, 6)])]
    dow = now.isoweekday() % 7
    if fields[2] == "*" or fields[4] == "*":
        day_ok = now.day in doms and dow in dows
    else:
        day_ok = now.day in doms or dow in dows
    return now.minute in mins and now.hour in hrs and now.month in mons and day_ok


def weekday_range_match(sp, now, startup, sun):
    """range(<weekday> t1, <weekday> t2) recurs every week: it runs from the most recent occurrence of the start that is
    not after `now` to the first occurrence of the end at or after that start."""
    a, b = sp["start"], sp["end"]
    start = None
    for back in range(0, 8):
        day = now.date() - dt.timedelta(days=back)
        if day.isoweekday() % 7 == a["date"][1]:
            t = c06.dt_on_date(a, day, startup, sun)
            if t <= now:
                start = t
                break
    if start is None:
        return False
    if b["date"] is None:
        # a date-less end refers to the start's day (the next day when that would lie before the start)
        t = c06.dt_on_date(b, start.date(), startup, sun)
        if t < start:
            t = c06.dt_on_date(b, start.date() + dt.timedelta(days=1), startup, sun)
        return start <= now <= t
    for fwd in range(0, 8):
        day = start.date() + dt.timedelta(days=fwd)
        if day.isoweekday() % 7 == b["date"][1]:
            t = c06.dt_on_date(b, day, startup, sun)
            if t >= start:
                return start <= now <= t
    return False


def is_weekday_range(sp):
    return sp["kind"] == "range" and sp["start"]["date"] is not None and sp["start"]["date"][0] == "dow"


def spec_match(sp, now, startup, sun):
    if sp["kind"] == "cron":
        return cron_match(sp["fields"], now)
    if is_weekday_range(sp):
        return weekday_range_match(sp, now, startup, sun)
    start = dt_for(sp["start"], now, startup, sun)
    if sp["start"]["date"] is not None and sp["start"]["date"][0] == "ymd" and sp["end"]["date"] is None and sp["end"]["time"][0] != "now":
        # mixed form: a date-less end refers to the start's day
        end = c06.dt_on_date(sp["end"], start.date(), startup, sun)
    else:
        end = dt_for(sp["end"], now, startup, sun)
    if start <= end:
        return start <= now <= end
    return now >= start or now <= end


def active(specs, now, startup, sun):
    pos = [spec_match(sp, now, startup, sun) for sp in specs if not sp["neg"]]
    neg = [spec_match(sp, now, startup, sun) for sp in specs if sp["neg"]]
    return (any(pos) if pos else True) and not any(neg)


def gen_range(R, now):
    form = R.weighted([(5, "daily"), (2, "dated"), (2, "sun"), (2, "now"), (2, "weekday"), (2, "mixed")])
    if form == "mixed":
        # dated or weekday start, date-less end (later on the start's day): evaluated on other days as well
        a = ["hms", R.choice([0, 8, 9]), R.choice([0, 30]), 0]
        b = ["hms", R.choice([12, 17, 23]), R.choice([0, 59]), 0]
        if R.bool():
            d1 = now.date() + dt.timedelta(days=R.choice([-3, -1, 0, 0, 1]))
            sd = ["ymd", d1.year, d1.month, d1.day]
        else:
            sd = ["dow", (now.isoweekday() + R.choice([0, 0, 6, 5, 1])) % 7]
        return {"kind": "range", "start": {"date": sd, "time": a, "off": None, "short": R.bool()}, "end": {"date": None, "time": b, "off": None, "short": R.bool()}}
    if form == "weekday":
        # weekly ranges around the current weekday: same day, a few days, wrapping over the week end
        d0 = (now.isoweekday() + R.choice([0, 0, 6, 5, 1, 3])) % 7
        d1 = (d0 + R.choice([0, 0, 1, 2, 4, 6])) % 7
        a = ["hms", R.choice([0, 8, 9, 12, 17]), R.choice([0, 30]), 0]
        b = ["hms", R.choice([9, 12, 17, 18, 23]), R.choice([0, 59]), 0]
        return {"kind": "range", "start": {"date": ["dow", d0], "time": a, "off": None, "short": R.bool()}, "end": {"date": ["dow", d1], "time": b, "off": None, "short": R.bool()}}
    if form == "daily":
        a = ["hms", R.choice([0, 1, 6, 8, 10, 12, 20, 22, 23]), R.choice([0, 30, 59]), R.choice([0, 0, 59.5])]
        b = ["hms", R.choice([0, 2, 6, 9, 10, 12, 18, 23]), R.choice([0, 15, 59]), R.choice([0, 0, 0.000001])]
        return {"kind": "range", "start": {"date": None, "time": a, "off": None, "short": R.bool()}, "end": {"date": None, "time": b, "off": None, "short": R.bool()}}
    if form == "dated":
        d1 = now.date() + dt.timedelta(days=R.choice([-2, -1, 0]))
        d2 = d1 + dt.timedelta(days=R.choice([0, 1, 3]))
        a = ["hms", R.choice([0, 8, 12]), 0, 0]
        b = ["hms", R.choice([12, 18, 23]), 30, 0]
        return {"kind": "range", "start": {"date": ["ymd", d1.year, d1.month, d1.day], "time": a, "off": None, "short": True}, "end": {"date": ["ymd", d2.year, d2.month, d2.day], "time": b, "off": None, "short": True}}
    if form == "sun":
        a, b = R.choice([("sunrise", "sunset"), ("sunset", "sunrise")])
        return {"kind": "range", "start": {"date": None, "time": [a], "off": R.choice([None, [20, "m"], [-30, "min"]]), "space": True}, "end": {"date": None, "time": [b], "off": R.choice([None, [1, "m"], [-20, "m"]]), "space": True}}
    return {"kind": "range", "start": {"date": None, "time": ["now"], "off": R.choice([None, [1, "min"], [-1, "h"]]), "space": True}, "end": {"date": None, "time": ["now"], "off": R.choice([None, [1, "hour"], [2, "min"]]), "space": True}}


def gen_specs(R, now):
    specs = []
    for _ in range(R.int(1, 4)):
        if R.bool(1, 4):
            sp = {"kind": "cron", "fields": c06.gen_spec_cron(R)}
        else:
            sp = gen_range(R, now)
        sp["neg"] = R.bool(1, 3)
        specs.append(sp)
    return specs


def _gen_spec_cron(R):
    while True:
        sp = c06.gen_spec(R, dt.datetime(2024, 6, 12))
        if sp["kind"] == "cron":
            return sp["fields"]


c06.gen_spec_cron = _gen_spec_cron


def endpoints(specs, now, startup, sun):
    out = []
    for sp in specs:
        if sp["kind"] == "range":
            for d in (sp["start"], sp["end"]):
                if d["date"] is not None and d["date"][0] == "dow":
                    for k in range(-7, 8):
                        day = now.date() + dt.timedelta(days=k)
                        if day.isoweekday() % 7 == d["date"][1]:
                            out.append(c06.dt_on_date(d, day, startup, sun))
                    continue
                t = dt_for(d, now, startup, sun)
                if t is not None:
                    out.append(t)
        else:
            out.append(now.replace(second=0, microsecond=0))
            out.append(now.replace(second=59, microsecond=999999))
    return out


# ------------------------------------------------------------------------------------------
# (B) integration model
# ------------------------------------------------------------------------------------------

GUARD_EXPRS = [
    None,
    ("pyscript.g == '1'", lambda w, ev: w.get("pyscript.g") == "1"),
    ("pyscript.g == '1' and pyscript.v != '3'", lambda w, ev: w.get("pyscript.g") == "1" and ev.get("v_new", w.get("pyscript.v")) != "3"),
    ("pyscript.v.old == '1'", lambda w, ev: ev.get("v_old") == "1"),
    ("pyscript.nosuch == None and pyscript.g != '0'", lambda w, ev: w.get("pyscript.g") != "0"),
    # truthiness of non-bool values: 0 / '' / None are falsy, 1 / 'text' truthy
    ("int(pyscript.g)", lambda w, ev: bool(int(w.get("pyscript.g")))),
    ("pyscript.g.missing_attr", lambda w, ev: False),
    ("pyscript.g", lambda w, ev: bool(w.get("pyscript.g"))),
]

BASE = l3.BASE_DT  # 2024-06-12 10:00:00 local


def b_specs(R):
    """time_active specifications around the virtual wall-clock base 10:00:00."""
    pool = [
        {"neg": False, "kind": "range", "start": {"date": None, "time": ["hms", 10, 0, 0], "off": None, "short": True}, "end": {"date": None, "time": ["hms", 10, 2, 0], "off": None, "short": True}},
        {"neg": False, "kind": "range", "start": {"date": None, "time": ["hms", 10, 3, 0], "off": None, "short": True}, "end": {"date": None, "time": ["hms", 10, 6, 0], "off": None, "short": True}},
        {"neg": True, "kind": "range", "start": {"date": None, "time": ["hms", 10, 1, 0], "off": None, "short": True}, "end": {"date": None, "time": ["hms", 10, 1, 30], "off": None}},
        {"neg": True, "kind": "range", "start": {"date": None, "time": ["hms", 10, 4, 0], "off": None, "short": True}, "end": {"date": None, "time": ["hms", 10, 5, 0], "off": None, "short": True}},
        {"neg": False, "kind": "range", "start": {"date": None, "time": ["hms", 22, 0, 0], "off": None, "short": True}, "end": {"date": None, "time": ["hms", 10, 0, 45], "off": None}},
        {"neg": False, "kind": "cron", "fields": ["*/2", "10", "*", "*", "*"]},
        {"neg": True, "kind": "cron", "fields": ["3", "*", "*", "*", "*"]},
        {"neg": False, "kind": "range", "start": {"date": None, "time": ["now"], "off": [30, "s"], "space": True}, "end": {"date": None, "time": ["now"], "off": [3, "min"], "space": True}},
    ]
    n = R.weighted([(2, 0), (3, 1), (3, 2), (2, 3)])
    return [R.choice(pool) for _ in range(n)]


def gen_b(R):
    trig = R.choice(["event", "state", "time"])
    guard = R.int(0, len(GUARD_EXPRS) - 1)
    if trig != "state" and guard == 3:
        guard = 1
    specs = b_specs(R)
    hold_off = R.choice([None, None, 0, 20.2, 45.2])  # never ties with the 0.5 s occurrence grid
    ops = []
    for _ in range(R.int(3, 14)):
        gap = R.choice([0.0, 0.0, 0.5, 3.0, 10.5, 19.5, 20.5, 31.0, 44.5, 45.5, 61.0])  # 0.0 = back-to-back, no yield in between
        k = R.weighted([(6, "occ"), (2, "guard"), (1, "direct"), (1, "watch")])
        # back-to-back only between occurrences: a guard entity changed in the same instant is read at
        # evaluation time by design (the documentation's "current value")
        if gap == 0.0 and (not ops or ops[-1][1] != "occ" or k != "occ"):
            gap = 0.5
        if k == "occ":
            ops.append([gap, "occ", R.choice(["1", "2", "3"])])
        elif k == "guard":
            ops.append([gap, "guard", R.choice(["0", "1"])])
        elif k == "watch":
            # another function watches the guard entity for a while (task.wait_until with a time-out) and stops again: the
            # guard must keep seeing the entity's current value afterwards
            ops.append([gap, "watch", None])
        else:
            ops.append([gap, "direct", None])
    return {"part": "B", "legacy": R.bool(), "trig": trig, "guard": guard, "specs": specs, "hold_off": hold_off, "ops": ops,
            "order": R.choice(["sa-first", "ta-first"])}


def b_script(case):
    L = []
    if case["trig"] == "event":
        L.append("@event_trigger('ev')")
    elif case["trig"] == "state":
        L.append("@state_trigger('pyscript.v')")
    else:
        L.append("@time_trigger('period(now + 2s, 7s)')")
    sa = None
    if GUARD_EXPRS[case["guard"]] is not None:
        sa = f"@state_active({GUARD_EXPRS[case['guard']][0]!r})"
    ta = None
    if case["specs"] or case["hold_off"] is not None:
        args = [repr(render(sp)) for sp in case["specs"]]
        if case["hold_off"] is not None:
            args.append(f"hold_off={case['hold_off']}")
        ta = f"@time_active({', '.join(args)})"
    decs = [sa, ta] if case["order"] == "sa-first" else [ta, sa]
    L += [d for d in decs if d]
    L += ["def f(**kw):", "    vrec('run', kw.get('trigger_type'))", "", "@event_trigger('direct')", "def caller(**kw):", "    f()", "",
          "@event_trigger('watch')", "def watcher(**kw):", "    task.wait_until(state_trigger=\"pyscript.g == 'never'\", timeout=1.2)", ""]
    return "\n".join(L)


async def exec_b(case):
    init = {"pyscript.g": ("1", {}), "pyscript.v": ("1", {})}
    async with l3.Integ({"hello.py": b_script(case)}, legacy=case["legacy"], initial_states=init, autostart=False, tz=TZ) as it:
        from homeassistant.helpers import sun as ha_sun

        loc = ha_sun.get_astral_location(it.hass)
        if isinstance(loc, tuple):
            loc = loc[0]
        sun = c06.Sun(loc)
        t0 = it.vt()
        startup = it.vnow()
        await it.start()
        world = {"pyscript.g": "1", "pyscript.v": "1"}
        occs = []  # (rel time, event dict) in model order
        t = 0.25
        for idx, (gap, op, arg) in enumerate(case["ops"]):
            t += gap
            if gap > 0:
                await it.sleep_until(t0 + t)
            if op == "occ":
                if case["trig"] == "event":
                    it.fire("ev", {"n": arg})
                    occs.append((t, {}))
                elif case["trig"] == "state":
                    old = world["pyscript.v"]
                    if old != arg:
                        it.set_state("pyscript.v", arg)
                        world["pyscript.v"] = arg
                        occs.append((t, {"v_old": old, "v_new": arg}))
            elif op == "guard":
                it.set_state("pyscript.g", arg)
                world["pyscript.g"] = arg
                occs.append((t, {"guard_set": arg}))
            elif op == "watch":
                it.fire("watch", {})
            else:
                it.fire("direct", {})
                occs.append((t, {"direct": True}))
            if idx + 1 >= len(case["ops"]) or case["ops"][idx + 1][0] > 0:
                await it.settle(1)
        end = t + 1.0
        await it.sleep_until(t0 + end)
        runs = [(round(vt - t0, 3), a[1]) for vt, a, kw in it.records if a[0] == "run"]
        errs = [e[2][:200] for e in it.errors()]
        await it.unload()
    # ----- model
    exp = []
    world = {"pyscript.g": "1", "pyscript.v": "1"}
    last_ok = None
    guard = GUARD_EXPRS[case["guard"]]
    events = []
    for rel, ev in occs:
        events.append((rel, ev))
    if case["trig"] == "time":
        k = 0
        while 2 + 7 * k <= end:
            events.append((2 + 7 * k, {"time": True}))
            k += 1
    events.sort(key=lambda x: x[0])
    for rel, ev in events:
        if "guard_set" in ev:
            world["pyscript.g"] = ev["guard_set"]
            continue
        if "direct" in ev:
            exp.append((round(rel, 3), None))
            continue
        if "v_new" in ev:
            world["pyscript.v"] = ev["v_new"]
        now = startup + dt.timedelta(seconds=rel)
        ok = True
        if guard is not None and not guard[1](world, ev):
            ok = False
        if ok and case["specs"] and not active(case["specs"], now, startup, sun):
            ok = False
        if ok and case["hold_off"] and last_ok is not None and rel - last_ok < case["hold_off"]:
            ok = False
        if ok:
            last_ok = rel
            exp.append((round(rel, 3), {"event": "event", "state": "state", "time": "time"}[case["trig"]]))
    return {"expected": [list(x) for x in exp], "observed": [list(x) for x in runs], "errors": errs}


def runs_match(exp, obs):
    if len(exp) != len(obs):
        return False
    for e, o in zip(exp, obs):
        if e[1] != o[1] or abs(e[0] - o[0]) > 0.01:
            return False
    return True


class C07(ModelCheck):
    prop = PROP
    rule = (
        "(A) TrigTime.timer_active_check on lists of 1-4 positive/negated range() (daily incl. wrapping, dated, "
        "sunrise/sunset with offsets, now-relative) and cron() specifications, evaluated at every end point and "
        "minute boundary +/- 1 us and at random times, against an independent matcher (inclusive end points, wrap "
        "when end < start, crontab field matching; (any positive or none given) and no negative). (B) integration on "
        "the virtual clock: a state / time / event trigger with @state_active (incl. .old, unwatched and undefined "
        "names) and @time_active(specifications, hold_off=N) in either decorator order, occurrences at generated "
        "times around window edges and N, a guard entity toggled in between (and watched for a while by another function's task.wait_until), and direct calls through a second "
        "function; oracle: an occurrence runs iff guard expression true on the triggering values and time in window "
        "and >= N s since the last accepted occurrence; direct calls always run; both subsystems. Non-trivial = (A) a "
        "positive and a negative specification or an evaluation within 1 us of an end point, (B) an occurrence inside "
        "the hold-off interval or rejected by a guard; distinct by case content."
    )
    assumptions = ["sun times come from Home Assistant's astral location", "occurrence times keep >= 0.25 s distance from window edges and hold-off deadlines in part B"]

    def __init__(self):
        self._ctx = None

    def run_shard(self, tier, shard_i, shard_n):
        res = asyncio.run(self._shard_a(tier, shard_i, shard_n))
        nb = {"quick": 640, "thorough": 24000}[tier] // shard_n
        pending = []
        core.run_hypothesis(lambda R: pending.append(gen_b(R)), nb, core.seed() * 7919 + shard_i)
        for c in self.regress_cases() if shard_i == 0 else []:
            self.check_case(res, c, "regress")
        for c in pending:
            if res.counters.get("mismatch_total", 0) >= 100:
                break
            self.check_case(res, c, "integration")
        res.count("integration_cases", len(pending))
        return res

    def regress_cases(self):
        return self.fixed_regress()

    async def _setup(self):
        pass

    async def _shard_a(self, tier, shard_i, shard_n):
        res = core.ShardResult()
        async with l1.bare_hass() as hass:
            await hass.config.async_set_time_zone(TZ)
            from homeassistant.helpers import sun as ha_sun

            loc = ha_sun.get_astral_location(hass)
            if isinstance(loc, tuple):
                loc = loc[0]
            self._ctx = {"sun": c06.Sun(loc)}
            n = {"quick": 6000, "thorough": 300000}[tier] // shard_n
            pending = []
            done = b = 0
            while done < n:
                k = min(500, n - done)
                pending.clear()
                core.run_hypothesis(lambda R: pending.append(self.gen_a(R)), k, core.seed() * 100003 + shard_i * 1009 + b)
                for c in list(pending):
                    if res.counters.get("mismatch_total", 0) >= 100:
                        break
                    r = await self.run_a(c)
                    res.case({"specs": r["detail"]["texts"], "now": c["now"]}, r["nontrivial"])
                    res.klass("window")
                    for kl in r["classes"]:
                        res.klass(kl)
                    if r["expected"] != r["observed"]:
                        fid = self.attribute(c, r)
                        if fid:
                            res.known(fid)
                        else:
                            # shrink: drop specifications
                            case, rr = c, r
                            changed = True
                            while changed and len(case["specs"]) > 1:
                                changed = False
                                for i in range(len(case["specs"])):
                                    c2 = dict(case)
                                    c2["specs"] = case["specs"][:i] + case["specs"][i + 1 :]
                                    r2 = await self.run_a(c2)
                                    if r2["expected"] != r2["observed"]:
                                        case, rr, changed = c2, r2, True
                                        break
                            res.mismatch(self.bucket(case, rr), case, expected=rr["expected"], observed=rr["observed"], detail=rr["detail"])
                done += k
                b += 1
            res.count("window_cases", done)
        return res

    def gen_a(self, R):
        startup = dt.datetime(2024, 1, 1) + dt.timedelta(days=R.int(0, 700), seconds=R.int(0, 86399), microseconds=7)
        base = startup + dt.timedelta(days=R.choice([0, 0, 1, 3]), seconds=R.int(0, 86399))
        specs = gen_specs(R, base)
        k = R.weighted([(4, "edge"), (2, "random")])
        now = base
        if k == "edge":
            eps = endpoints(specs, base, startup, self._ctx["sun"])
            if eps:
                now = R.choice(eps) + R.choice([-US, dt.timedelta(0), US])
        now = c06.out_of_gap(now)
        if now < startup:
            startup = now - dt.timedelta(seconds=5)
        return {"part": "A", "specs": specs, "now": c06.iso(now), "startup": c06.iso(startup)}

    async def run_a(self, case):
        from custom_components.pyscript.trigger import TrigTime

        sun = self._ctx["sun"]
        now = dt.datetime.fromisoformat(case["now"])
        startup = dt.datetime.fromisoformat(case["startup"])
        texts = [render(sp) for sp in case["specs"]]
        exp = active(case["specs"], now, startup, sun)
        try:
            got = await TrigTime.timer_active_check(texts, now, startup)
        except Exception as e:  # noqa: BLE001
            got = "exception:" + type(e).__name__
        near = any(abs((t - now).total_seconds()) <= 1e-6 for t in endpoints(case["specs"], now, startup, sun))
        mixed = any(sp["neg"] for sp in case["specs"]) and any(not sp["neg"] for sp in case["specs"])
        return {"expected": bool(exp), "observed": got, "nontrivial": near or mixed,
                "classes": (["near-endpoint"] if near else []) + (["mixed"] if mixed else []) + [sp["kind"] for sp in case["specs"]],
                "detail": {"texts": texts}}

    def run(self, case):
        if case.get("part") == "A":
            async def go():
                async with l1.bare_hass() as hass:
                    await hass.config.async_set_time_zone(TZ)
                    from homeassistant.helpers import sun as ha_sun

                    loc = ha_sun.get_astral_location(hass)
                    if isinstance(loc, tuple):
                        loc = loc[0]
                    self._ctx = {"sun": c06.Sun(loc)}
                    return await self.run_a(case)

            return asyncio.run(go())
        case = json.loads(json.dumps(case))
        r = l3.run_case(exec_b, case)
        rejected = len([o for o in case["ops"] if o[1] == "occ"]) > len(r["expected"])
        return {"expected": r["expected"], "observed": r["observed"], "match": runs_match(r["expected"], r["observed"]),
                "nontrivial": rejected and len(r["expected"]) >= 1,
                "classes": ["B-" + case["trig"], "B-legacy" if case["legacy"] else "B-new"] + (["B-holdoff"] if case["hold_off"] else []),
                "detail": {"script": b_script(case), "errors": r["errors"][:2]}}

    def mismatch(self, r):
        if "match" in r:
            return not r["match"]
        return r["expected"] != r["observed"]

    def bucket(self, case, r):
        if case.get("part") == "A":
            return "window|" + "+".join(sorted({("not-" if sp["neg"] else "") + sp["kind"] for sp in case["specs"]}))
        kind = "missing" if len(r["observed"]) < len(r["expected"]) else "extra" if len(r["observed"]) > len(r["expected"]) else "args-time"
        return f"integ|{case['trig']}|{'legacy' if case['legacy'] else 'new'}|{kind}|holdoff={bool(case['hold_off'])}|specs={len(case['specs'])}"

    def attribute(self, case, r):
        for f in core.open_findings(PROP):
            fn = ATTRIBUTORS.get(f["id"])
            if fn and fn(case, r):
                return f["id"]
        return None

    def main(self, tier, **kw):
        return super().main(tier, **kw)


ATTRIBUTORS = {}
CHECK = C07()


def run_shard(tier, i, n):
    return CHECK.run_shard(tier, i, n)


def replay(path):
    return CHECK.replay(path)


def main(tier):
    return CHECK.main(tier)
