"""C09 - triggers live exactly as long as their function and leave nothing behind (operation sequences vs model)."""

from __future__ import annotations

import asyncio
import gc
import json
import sys

from unittest.mock import patch

from vlib import core, l3
from vlib.modelcheck import ModelCheck

PROP = "C09"
CTXS = ["file.a", "file.b"]
FNS = ["f1", "f2"]
KINDS = ["state", "event", "time", "service", "mqtt", "webhook"]
MQTT_TOPIC = "home/t"

STATE_EXPR = "pyscript.e1 == '1' or pyscript.e1.old == '9' or pyscript.e1.a == 5 or pyscript.e2 == '7'"


def fn_src(ctx, name, gen, kinds, extra, indent="", service_first=False):
    L = []
    svc = f"{indent}@service('pyscript.{ctx.split('.')[1]}_{name}')"
    if "alias" in kinds:
        # several names in one decorator are aliases of one service function
        svc = f"{indent}@service('pyscript.{ctx.split('.')[1]}_{name}', 'pyscript.{ctx.split('.')[1]}_{name}_alias')"
    if "service" in kinds and service_first:
        L.append(svc)
    if "state" in kinds:
        L.append(f'{indent}@state_trigger("{STATE_EXPR}")')
    if "event" in kinds:
        L.append(f"{indent}@event_trigger('ev1')")
    if "time" in kinds:
        specs = ["'period(now + 1s, 3s)'"] + [repr(x) for x in extra]
        L.append(f"{indent}@time_trigger({', '.join(specs)})")
    elif extra:
        L.append(f"{indent}@time_trigger({', '.join(repr(x) for x in extra)})")
    if "mqtt" in kinds:
        L.append(f"{indent}@mqtt_trigger({MQTT_TOPIC!r})")
    if "webhook" in kinds:
        # one webhook id per context: f1 and f2 share it (Home Assistant allows one handler per id)
        L.append(f"{indent}@webhook_trigger('hook_{ctx.split('.')[1]}')")
    if "service" in kinds and not service_first:
        L.append(svc)
    if "shared" in kinds:
        L.append(f"{indent}@service('pyscript.shared_svc')")
    L.append(f"{indent}def {name}(trigger_type=None, trigger_time=None, **kw):")
    L.append(f"{indent}    vrec('run', {ctx!r}, {name!r}, {gen}, trigger_type, str(trigger_time) if trigger_time in ('startup', 'shutdown') else None)")
    return "\n".join(L)


FACTORY = """
def mk(tag):
    @event_trigger('ev1')
    def inner(trigger_type=None, **kw):
        vrec('run', CTX, 'closure', tag, trigger_type, None)
    return inner
lst = []
dct = {}
"""


def gen(R):
    ops = []
    g = 0
    nctx = R.int(1, 2)
    shared = {}  # (ctx, fn) -> holds the shared service name
    if nctx == 2 and R.bool(1, 5):
        # structured contest: context A owns the shared service name, context B's declaration of it is rejected, then
        # A's function goes away - the name must go with it
        a_, b_ = R.shuffle(list(CTXS[:2]))
        kinds = sorted({x for x in KINDS if R.bool()} | {"event"}, key=KINDS.index) + ["shared"]
        g += 1
        ops.append({"op": "define", "ctx": a_, "fn": "f1", "gen": g, "kinds": kinds, "extra": []})
        g += 1
        ops.append({"op": "define", "ctx": b_, "fn": "f1", "gen": g, "kinds": ["shared"], "extra": []})
        how = R.choice(["del", "rebind", "redefine", "reload", "delete_file"])
        if how in ("del", "rebind"):
            ops.append({"op": how, "ctx": a_, "fn": "f1"})
        elif how == "redefine":
            g += 1
            ops.append({"op": "define", "ctx": a_, "fn": "f1", "gen": g, "kinds": ["event"], "extra": []})
        elif how == "reload":
            g += 2
            ops.append({"op": "reload", "ctx": a_, "gen": g, "kinds": ["state"], "extra": [], "dead": None})
        else:
            ops.append({"op": "delete_file", "ctx": a_})
        ops.append({"op": R.choice(["occ_service", "occ_event"])})
    for _ in range(R.int(3, 14)):
        ctx = R.choice(CTXS[:nctx])
        k = R.weighted([(6, "define"), (2, "define_race"), (2, "del"), (1, "rebind"), (3, "cont_add"), (2, "cont_remove"), (1, "reload"), (1, "reload_fast"), (2, "load_race"), (1, "delete_file"),
                        (4, "occ_state"), (4, "occ_event"), (3, "occ_time"), (2, "occ_service"), (2, "occ_mqtt"), (2, "occ_webhook")])
        if k == "define":
            g += 1
            kinds = [x for x in KINDS if R.bool()] or ["event"]
            if "service" in kinds and R.bool(1, 3):
                kinds = kinds + ["alias"]
            extra = R.choice([[], [], ["startup"], ["shutdown"], ["startup", "shutdown"]])
            fn = R.choice(FNS)
            if R.bool(1, 4):
                holders = {key for key, v in shared.items() if v}
                if any(key[0] != ctx for key in holders):
                    # a declaration of a name another context owns is rejected; it carries nothing else, because what
                    # happens to the other triggers of a rejected function is not specified
                    kinds, extra = ["shared"], []
                else:
                    kinds = kinds + ["shared"]
            shared[(ctx, fn)] = "shared" in kinds and not any(key[0] != ctx and v for key, v in shared.items())
            ops.append({"op": "define", "ctx": ctx, "fn": fn, "gen": g, "kinds": kinds, "extra": extra})
        elif k == "define_race":
            g += 1
            kinds = sorted({"service", R.choice(["state", "event", "time"])} | {x for x in KINDS if R.bool(1, 3)}, key=KINDS.index)
            fn = R.choice(FNS)
            shared[(ctx, fn)] = False
            ops.append({"op": "define_race", "ctx": ctx, "fn": fn, "gen": g, "kinds": kinds, "extra": [], "yields": R.int(0, 8)})
        elif k in ("del", "rebind"):
            fn = R.choice(FNS)
            shared[(ctx, fn)] = False
            ops.append({"op": k, "ctx": ctx, "fn": fn})
        elif k == "cont_add":
            g += 1
            ops.append({"op": "cont_add", "ctx": ctx, "where": R.choice(["lst", "dct_k1", "dct_k2"]), "gen": g})
        elif k == "cont_remove":
            ops.append({"op": "cont_remove", "ctx": ctx, "how": R.choice(["pop", "del_k1", "clear_lst", "clear_dct"])})
        elif k in ("reload", "reload_fast"):
            for key in list(shared):
                if key[0] == ctx:
                    shared[key] = False
            g += 2
            kinds = [x for x in KINDS if R.bool()] or ["state"]
            ops.append({"op": k, "ctx": ctx, "gen": g, "kinds": kinds, "extra": R.choice([[], ["startup"], ["shutdown"]]) if k == "reload" else [],
                        # a second function that the file itself removes again (del / rebind) before the context is started
                        "dead": R.choice([None, None, "del", "rebind"]) if k == "reload" else None})
        elif k == "load_race":
            # the file is (re)loaded with one function whose @service comes first; while its triggers are still being
            # started (the service description lookup is suspended) the function is removed again
            for key in list(shared):
                if key[0] == ctx:
                    shared[key] = False
            g += 2
            kinds = sorted({"service", R.choice(["state", "event", "time"])} | {x for x in KINDS if R.bool(1, 3)}, key=KINDS.index)
            if R.bool():
                kinds = kinds + ["alias"]
            ops.append({"op": "load_race", "ctx": ctx, "gen": g, "kinds": kinds, "then": R.choice(["del", "delete_file", "reload", "rebind"]),
                        "yields": R.int(0, 6), "suspend": R.choice([R.int(4, 30), 60, 100, 200, 300])})
        elif k == "delete_file":
            for key in list(shared):
                if key[0] == ctx:
                    shared[key] = False
            ops.append({"op": "delete_file", "ctx": ctx})
        else:
            ops.append({"op": k})
    return {"legacy": R.bool(), "nctx": nctx, "ops": ops}


class Model:
    def __init__(self):
        self.funcs = {c: {} for c in CTXS}  # ctx -> name -> {"gen", "kinds", "extra"}
        self.bound = {c: set() for c in CTXS}
        self.lst = {c: [] for c in CTXS}
        self.dct = {c: {} for c in CTXS}
        self.loaded = {c: True for c in CTXS}
        self.shared_ok = set()  # (ctx, fn, gen) whose declaration of the contested service name was accepted

    def live(self):
        out = []
        for c in CTXS:
            for n, f in self.funcs[c].items():
                out.append((c, n, f["gen"], tuple(f["kinds"]), tuple(f["extra"])))
            for tag in self.lst[c] + list(self.dct[c].values()):
                out.append((c, "closure", tag, ("event",), ()))
        return out


async def execute(case):
    from custom_components.pyscript.eval import AstEval
    from custom_components.pyscript.event import Event
    from custom_components.pyscript.function import Function
    from custom_components.pyscript.global_ctx import GlobalContextMgr
    from custom_components.pyscript.state import State

    files = {}
    for c in CTXS[: case["nctx"]]:
        files[f"{c.split('.')[1]}.py"] = f"CTX = {c!r}\n" + FACTORY
    # recording fakes of Home Assistant's MQTT / webhook API boundary (as in C08)
    subs = []  # (topic, handler)
    hooks = {}
    hook_errors = []

    async def fake_subscribe(hass, topic, handler, qos=0, encoding="utf-8"):
        ent = (topic, handler)
        subs.append(ent)

        def unsub():
            if ent in subs:
                subs.remove(ent)

        return unsub

    def fake_register(hass, domain, name, webhook_id, handler, local_only=False, allowed_methods=None):
        if webhook_id in hooks:
            hook_errors.append(webhook_id)
            raise ValueError("Handler is already defined!")
        hooks[webhook_id] = handler

    def fake_unregister(hass, webhook_id):
        hooks.pop(webhook_id, None)

    with patch("homeassistant.components.mqtt.async_subscribe", fake_subscribe), patch(
        "homeassistant.components.webhook.async_register", fake_register
    ), patch("homeassistant.components.webhook.async_unregister", fake_unregister):
        return await _execute(case, files, subs, hooks)


async def _execute(case, files, subs, hooks):
    from types import SimpleNamespace

    from checks.c08 import FakeRequest
    from custom_components.pyscript.eval import AstEval
    from custom_components.pyscript.event import Event
    from custom_components.pyscript.function import Function
    from custom_components.pyscript.global_ctx import GlobalContextMgr
    from custom_components.pyscript.state import State

    async with l3.Integ(files, legacy=case["legacy"], initial_states={"pyscript.e1": ("0", {"a": 1}), "pyscript.e2": ("0", {})}) as it:
        # the harness owns the schedule: State.get_service_params() (awaited while a @service decorator starts) really
        # suspends in production whenever service descriptions have to be loaded; here it suspends for a generated
        # number of loop iterations during the define/delete race
        orig_gsp = State.get_service_params.__func__
        suspend = {"n": 0}

        async def slow_get_service_params(cls):
            # only the lookup made while a @service decorator starts is held back (a reload's own lookup is not)
            fr, from_service = sys._getframe(1), False
            while fr is not None and not from_service:
                from_service = fr.f_code.co_filename.endswith("decorators/service.py")
                fr = fr.f_back
            for _ in range(suspend["n"] if from_service else 0):
                await asyncio.sleep(0)
            return await orig_gsp(cls)

        State.get_service_params = classmethod(slow_get_service_params)
        m = Model()
        for c in CTXS[case["nctx"]:]:
            m.loaded[c] = False
        trace = []
        toggle = 0

        async def run_in(ctx, src):
            gctx = GlobalContextMgr.get(ctx)
            if gctx is None:
                return "NoContext"
            ast_ctx = AstEval(ctx, gctx)
            Function.install_ast_funcs(ast_ctx)
            try:
                ast_ctx.parse(src)
                await ast_ctx.eval()
                return None
            except Exception as exc:  # noqa: BLE001
                return type(exc).__name__

        for i, op in enumerate(case["ops"]):
            n0 = len(it.records)
            step = {"i": i, "op": op["op"]}
            exp_runs = []
            k = op["op"]
            if k in ("define", "define_race", "del", "rebind", "cont_add", "cont_remove"):
                ctx = op["ctx"]
                if not m.loaded[ctx]:
                    continue
            if k == "define":
                old = m.funcs[ctx].get(op["fn"])
                exc = await run_in(ctx, fn_src(ctx, op["fn"], op["gen"], op["kinds"], op["extra"], service_first=op["gen"] % 2 == 0))
                if old and "shutdown" in old["extra"]:
                    exp_runs.append([ctx, op["fn"], old["gen"], "time", "shutdown"])
                if "startup" in op["extra"]:
                    exp_runs.append([ctx, op["fn"], op["gen"], "time", "startup"])
                m.funcs[ctx][op["fn"]] = {"gen": op["gen"], "kinds": op["kinds"], "extra": op["extra"]}
                m.bound[ctx].add(op["fn"])
                if "shared" in op["kinds"]:
                    # the first context that declared the name keeps it while one of its functions still declares it; a
                    # declaration from another context is rejected when it is made and does not come to life later
                    live_now = {(c, n, g_) for (c, n, g_, kinds, extra) in m.live()}
                    if all(h[0] == ctx for h in m.shared_ok & live_now):
                        m.shared_ok.add((ctx, op["fn"], op["gen"]))
            elif k == "define_race":
                # the definition is evaluated in its own task (its triggers are being started, @service first) and the
                # name is deleted from a second task a few loop iterations later
                old = m.funcs[ctx].pop(op["fn"], None)
                suspend["n"] = 6
                t1 = asyncio.get_running_loop().create_task(run_in(ctx, fn_src(ctx, op["fn"], op["gen"], op["kinds"], [], service_first=True)))
                for _ in range(op["yields"]):
                    await asyncio.sleep(0)
                await run_in(ctx, f"try:\n    del {op['fn']}\nexcept NameError:\n    pass")
                await t1
                suspend["n"] = 0
                await it.settle(1)
                await run_in(ctx, f"try:\n    del {op['fn']}\nexcept NameError:\n    pass")
                m.bound[ctx].discard(op["fn"])
                if old and "shutdown" in old["extra"]:
                    exp_runs.append([ctx, op["fn"], old["gen"], "time", "shutdown"])
            elif k in ("del", "rebind"):
                old = m.funcs[ctx].pop(op["fn"], None)
                exc = await run_in(ctx, f"del {op['fn']}" if k == "del" else f"{op['fn']} = 5")
                exp_exc = None
                if k == "del":
                    exp_exc = None if op["fn"] in m.bound[ctx] else "NameError"
                    m.bound[ctx].discard(op["fn"])
                else:
                    m.bound[ctx].add(op["fn"])
                if exc != exp_exc:
                    step["problem"] = f"exception {exc} != {exp_exc}"
                if old and "shutdown" in old["extra"]:
                    exp_runs.append([ctx, op["fn"], old["gen"], "time", "shutdown"])
            elif k == "cont_add":
                if op["where"] == "lst":
                    exc = await run_in(ctx, f"lst.append(mk({op['gen']}))")
                    m.lst[ctx].append(op["gen"])
                else:
                    key = op["where"][-2:]
                    exc = await run_in(ctx, f"dct[{key!r}] = mk({op['gen']})")
                    m.dct[ctx][key] = op["gen"]
            elif k == "cont_remove":
                how = op["how"]
                if how == "pop":
                    if m.lst[ctx]:
                        m.lst[ctx].pop()
                        exc = await run_in(ctx, "lst.pop()")
                elif how == "del_k1":
                    if "k1" in m.dct[ctx]:
                        del m.dct[ctx]["k1"]
                        exc = await run_in(ctx, "del dct['k1']")
                elif how == "clear_lst":
                    m.lst[ctx] = []
                    exc = await run_in(ctx, "lst.clear()")
                else:
                    m.dct[ctx] = {}
                    exc = await run_in(ctx, "dct.clear()")
            elif k in ("reload", "reload_fast", "delete_file"):
                ctx = op["ctx"]
                base = f"{ctx.split('.')[1]}.py"
                path = f"{it.dir}/pyscript/{base}"
                import os

                for n, f in m.funcs[ctx].items():
                    if "shutdown" in f["extra"]:
                        exp_runs.append([ctx, n, f["gen"], "time", "shutdown"])
                if k == "reload_fast":
                    # first version of the file, reload requested but not awaited: its triggers are still starting
                    # when the second reload replaces it
                    src0 = f"CTX = {ctx!r}\n" + FACTORY + "\n" + fn_src(ctx, "f1", op["gen"] - 1, op["kinds"], [], service_first=True) + "\n"
                    with open(path, "w") as fh:
                        fh.write(src0)
                    os.utime(path, (1_700_000_000 + 10 * i, 1_700_000_000 + 10 * i))
                    await it.hass.services.async_call("pyscript", "reload", {}, blocking=False)
                    for _ in range(op["gen"] % 4):
                        await asyncio.sleep(0)
                if k in ("reload", "reload_fast"):
                    src = f"CTX = {ctx!r}\n" + FACTORY + "\n" + fn_src(ctx, "f1", op["gen"], op["kinds"], op["extra"], service_first=op["gen"] % 4 < 2) + "\n"
                    if op.get("dead"):
                        src += fn_src(ctx, "f2", op["gen"] + 500, list(KINDS), ["startup"]) + "\n"
                        src += "del f2\n" if op["dead"] == "del" else "f2 = 5\n"
                    with open(path, "w") as fh:
                        fh.write(src)
                    os.utime(path, (1_700_000_005 + 10 * i, 1_700_000_005 + 10 * i))
                    m.funcs[ctx] = {"f1": {"gen": op["gen"], "kinds": op["kinds"], "extra": op["extra"]}}
                    m.bound[ctx] = {"f1"} | ({"f2"} if op.get("dead") == "rebind" else set())
                    m.loaded[ctx] = True
                    if "startup" in op["extra"]:
                        exp_runs.append([ctx, "f1", op["gen"], "time", "startup"])
                else:
                    if os.path.exists(path):
                        os.unlink(path)
                    m.funcs[ctx] = {}
                    m.bound[ctx] = set()
                    m.loaded[ctx] = False
                m.lst[ctx] = []
                m.dct[ctx] = {}
                await it.reload()
            elif k == "load_race":
                import os

                ctx = op["ctx"]
                path = f"{it.dir}/pyscript/{ctx.split('.')[1]}.py"
                for n, f in m.funcs[ctx].items():
                    if "shutdown" in f["extra"]:
                        exp_runs.append([ctx, n, f["gen"], "time", "shutdown"])
                with open(path, "w") as fh:
                    fh.write(f"CTX = {ctx!r}\n" + FACTORY + "\n" + fn_src(ctx, "f1", op["gen"] - 1, op["kinds"], [], service_first=True) + "\n")
                os.utime(path, (1_700_000_000 + 10 * i, 1_700_000_000 + 10 * i))
                suspend["n"] = op["suspend"]
                await it.hass.services.async_call("pyscript", "reload", {}, blocking=True)
                for _ in range(op["yields"]):
                    await asyncio.sleep(0)
                m.lst[ctx] = []
                m.dct[ctx] = {}
                m.loaded[ctx] = True
                m.funcs[ctx] = {}
                m.bound[ctx] = set()
                if op["then"] in ("del", "rebind"):
                    await run_in(ctx, "del f1" if op["then"] == "del" else "f1 = 5")
                    if op["then"] == "rebind":
                        m.bound[ctx] = {"f1"}
                elif op["then"] == "delete_file":
                    os.unlink(path)
                    m.loaded[ctx] = False
                    await it.hass.services.async_call("pyscript", "reload", {}, blocking=True)
                else:
                    with open(path, "w") as fh:
                        fh.write(f"CTX = {ctx!r}\n" + FACTORY + "\n" + fn_src(ctx, "f1", op["gen"], op["kinds"], [], service_first=True) + "\n")
                    os.utime(path, (1_700_000_005 + 10 * i, 1_700_000_005 + 10 * i))
                    m.funcs[ctx] = {"f1": {"gen": op["gen"], "kinds": op["kinds"], "extra": []}}
                    m.bound[ctx] = {"f1"}
                    await it.hass.services.async_call("pyscript", "reload", {}, blocking=True)
                for _ in range(op["suspend"] + 5):
                    await asyncio.sleep(0)
                suspend["n"] = 0
            if k.startswith("occ") or True:
                gc.collect()
                await it.settle(2)
            if k == "occ_state":
                toggle += 1
                it.set_state("pyscript.e1", "1", {"a": 1})
                await it.settle(1)
                it.set_state("pyscript.e1", "0", {"a": 1})
                await it.settle(1)
                for (c, n, g_, kinds, extra) in m.live():
                    if "state" in kinds:
                        exp_runs.append([c, n, g_, "state", None])
            elif k == "occ_event":
                it.fire("ev1", {"x": i})
                await it.settle(1)
                for (c, n, g_, kinds, extra) in m.live():
                    if "event" in kinds:
                        exp_runs.append([c, n, g_, "event", None])
            elif k == "occ_mqtt":
                msg = SimpleNamespace(topic=MQTT_TOPIC, payload=str(i), qos=0, retain=False)
                for tp, h in list(subs):
                    await h(msg)
                await it.settle(1)
                for (c, n, g_, kinds, extra) in m.live():
                    if "mqtt" in kinds:
                        exp_runs.append([c, n, g_, "mqtt", None])
            elif k == "occ_webhook":
                for hid, h in sorted(hooks.items()):
                    await h(it.hass, hid, FakeRequest({"n": i}, True))
                await it.settle(1)
                for (c, n, g_, kinds, extra) in m.live():
                    if "webhook" in kinds:
                        exp_runs.append([c, n, g_, "webhook", None])
            elif k == "occ_service":
                for (c, n, g_, kinds, extra) in m.live():
                    if "service" in kinds:
                        svc = f"{c.split('.')[1]}_{n}"
                        if it.hass.services.has_service("pyscript", svc):
                            await it.hass.services.async_call("pyscript", svc, {}, blocking=True)
                        exp_runs.append([c, n, g_, "service", None])
                await it.settle(1)
            runs_before_time = [list(a[1:]) for vt, a, kw in it.records[n0:] if a[0] == "run"]
            time_runs = []
            if k == "occ_time":
                n1 = len(it.records)
                await it.sleep(3.05)
                time_runs = sorted({(a[1], a[2], a[3]) for vt, a, kw in it.records[n1:] if a[0] == "run" and a[4] == "time" and a[5] is None})
                exp_time = sorted({(c, n, g_) for (c, n, g_, kinds, extra) in m.live() if "time" in kinds})
                if [list(x) for x in time_runs] != [list(x) for x in exp_time]:
                    step["problem"] = f"time-trigger runs {time_runs} != live {exp_time}"
            else:
                # between explicit clock advances no virtual time passes, so periodic triggers stay silent
                obs = sorted(runs_before_time, key=str)
                if sorted(exp_runs, key=str) != obs:
                    step["problem"] = f"runs {obs} != expected {sorted(exp_runs, key=str)}"
            # resources
            live = m.live()
            n_state = sum(1 for x in live if "state" in x[3])
            n_event = sum(1 for x in live if "event" in x[3])
            q_e1 = len(State.notify.get("pyscript.e1", {}))
            q_e2 = len(State.notify.get("pyscript.e2", {}))
            bus = it.hass.bus.async_listeners().get("ev1", 0)
            ev_q = len(Event.notify.get("ev1", ()))
            svc_exp = sorted(f"{c.split('.')[1]}_{n}" for (c, n, g_, kinds, extra) in live if "service" in kinds)
            svc_exp += [f"{c.split('.')[1]}_{n}_alias" for (c, n, g_, kinds, extra) in live if "service" in kinds and "alias" in kinds]
            m.shared_ok &= {(c, n, g_) for (c, n, g_, kinds, extra) in live}
            if m.shared_ok:
                svc_exp.append("shared_svc")
            svc_exp = sorted(svc_exp)
            svc_obs = sorted(s for s in it.hass.services.async_services().get("pyscript", {}) if s[:2] in ("a_", "b_") or s == "shared_svc")
            n_mqtt = sum(1 for x in live if "mqtt" in x[3])
            # the legacy subsystem shares one subscription per topic, the new one subscribes per decorator
            mqtt_exp = min(n_mqtt, 1) if case["legacy"] else n_mqtt
            hooks_exp = sorted({f"hook_{c.split('.')[1]}" for (c, n, g_, kinds, extra) in live if "webhook" in kinds})
            res_exp = {"q_e1": n_state, "q_e2": n_state, "event": n_event, "services": svc_exp, "mqtt": mqtt_exp, "hooks": hooks_exp}
            res_obs = {"q_e1": q_e1, "q_e2": q_e2, "event": (ev_q if case["legacy"] else bus), "services": svc_obs, "mqtt": len(subs), "hooks": sorted(hooks)}
            if case["legacy"] and (bus > 1 or (bus == 0) != (ev_q == 0)):
                res_obs["bus_inconsistent"] = [bus, ev_q]
            if res_exp != res_obs and "problem" not in step:
                step["problem"] = f"resources {res_obs} != {res_exp}"
            trace.append(step)
            if "problem" in step:
                break
        n0 = len(it.records)
        shutdown_exp = sorted([[c, n, g_, "time", "shutdown"] for (c, n, g_, kinds, extra) in m.live() if "shutdown" in extra], key=str)
        await it.unload()
        gc.collect()
        await it.settle(2)
        shutdown_obs = sorted([list(a[1:]) for vt, a, kw in it.records[n0:] if a[0] == "run"], key=str)
        left = {
            "State.notify": {k2: len(v) for k2, v in State.notify.items() if v},
            "Event.notify": {k2: len(v) for k2, v in Event.notify.items() if v},
            "bus_ev1": it.hass.bus.async_listeners().get("ev1", 0),
            "bus_state_changed": it.hass.bus.async_listeners().get("state_changed", 0),
            "services": sorted(s for s in it.hass.services.async_services().get("pyscript", {})),
            "service_cnt": {k2: v for k2, v in Function.service_cnt.items() if v},
            "service2global_ctx": dict(Function.service2global_ctx),
            "our_tasks": len([t for t in Function.our_tasks if not t.done()]),
            "task2cb": len(Function.task2cb),
            "mqtt_subs": len(subs),
            "webhooks": sorted(hooks),
        }
        errs = [e[2][-400:] for e in it.errors()]
        State.get_service_params = classmethod(orig_gsp)
    problem = next((s["problem"] for s in trace if "problem" in s), None)
    where = next((s["i"] for s in trace if "problem" in s), None)
    if problem is None and shutdown_obs != shutdown_exp:
        problem, where = f"shutdown runs at unload {shutdown_obs} != {shutdown_exp}", len(case["ops"])
    return {"problem": problem, "where": where, "left": left, "errors": errs}


CLEAN = {"State.notify": {}, "Event.notify": {}, "bus_ev1": 0, "services": [], "service_cnt": {}, "service2global_ctx": {}, "our_tasks": 0, "task2cb": 0,
         "mqtt_subs": 0, "webhooks": []}


class C09(ModelCheck):
    prop = PROP
    rule = (
        "sequences of 3-14 operations over 1-2 contexts, code evaluated the way a Jupyter cell is: define / redefine a "
        "function carrying any mix of @state_trigger (an expression watching the value, .old and an attribute of one "
        "entity plus a second entity), @event_trigger, @time_trigger (periodic, optionally 'startup'/'shutdown'), "
        "@mqtt_trigger, @webhook_trigger (both through recording fakes of Home Assistant's API boundary) and @service; del; rebind to a constant; closures created by a factory and stored in a list / dict, popped, "
        "deleted, cleared; rewrite the file and reload; delete the file and reload; finally unload - interleaved with "
        "occurrences (state change, event, 3 s clock advance, service call, MQTT message, webhook request); garbage collection forced after every "
        "step; both subsystems, the shard index is the hash seed; pyscript must not log an error of its own meanwhile (only the rejection of a service name owned by another context). Oracle: a model of live function generations - every "
        "occurrence is recorded by exactly the live generations; State.notify queues per entity, event listeners, MQTT subscriptions, registered webhook ids and "
        "registered services equal what the model derives after every step; startup/shutdown run once per "
        "definition/removal; after unload every pyscript table is empty and the bus has no pyscript listeners left. "
        "Non-trivial = a deactivation followed by an occurrence; distinct by sequence."
    )
    assumptions = ["'no longer referenced' is judged after a forced garbage collection", "Home Assistant's bus and service registry are trusted"]

    def n_random(self, tier):
        return {"quick": 480, "thorough": 6400}[tier]

    def gen(self, R):
        return gen(R)

    def regress_cases(self):
        return self.fixed_regress()

    def run(self, case):
        case = json.loads(json.dumps(case))
        r = l3.run_case(execute, case)
        left = dict(r["left"])
        bus_sc = left.pop("bus_state_changed")
        problems = []
        if r["problem"]:
            problems.append(r["problem"])
        if left != CLEAN:
            problems.append(f"left after unload: { {k: v for k, v in left.items() if v != CLEAN[k]} }")
        # defining and removing functions never makes pyscript log an error of its own; the only expected error is the
        # rejection of a service name that another context owns
        for e in r["errors"]:
            if "can't register service" not in e and "start failed" not in e:
                problems.append("internal-error logged: " + e.strip().splitlines()[-1][-120:])
                break
        seen_deact = False
        nt = False
        for o in case["ops"]:
            if o["op"] in ("define", "define_race", "del", "rebind", "cont_remove", "reload", "reload_fast", "load_race", "delete_file"):
                seen_deact = True
            elif o["op"].startswith("occ") and seen_deact:
                nt = True
        return {"expected": [], "observed": problems, "nontrivial": nt, "classes": ["legacy" if case["legacy"] else "new"],
                "detail": {"where": r["where"], "errors": r["errors"][:2]}}

    def bucket(self, case, r):
        p = r["observed"][0]
        kind = p.split(" ")[0]
        return ("legacy" if case["legacy"] else "new") + "|" + kind

    def main(self, tier, **kw):
        return super().main(tier, hashseeds=list(range(core.NCPU)), **kw)


CHECK = C09()


def run_shard(tier, i, n):
    return CHECK.run_shard(tier, i, n)


def replay(path):
    return CHECK.replay(path)


def main(tier):
    return CHECK.main(tier)
