import json, glob, sys, jsonschema
jsonschema.validate(json.load(open('MANIFEST.json')), json.load(open('/root/.vp/MANIFEST.schema.json')))
sch = json.load(open('/root/.vp/EVIDENCE.schema.json'))
for f in sorted(glob.glob('evidence/*.json')):
    jsonschema.validate(json.load(open(f)), sch); print('ok', f)
print('manifest ok')
