"""Validate MANIFEST.json and every evidence file against the schemas, and that each evidence level equals the
level category claimed in the manifest.  Run with python3-vt (has jsonschema)."""
import json, glob, sys, jsonschema
man = json.load(open('MANIFEST.json'))
jsonschema.validate(man, json.load(open('/root/.vp/MANIFEST.schema.json')))
sch = json.load(open('/root/.vp/EVIDENCE.schema.json'))
claimed = {c['property_id']: c['level_claimed']['category'] for c in man['checks']}
bad = 0
for f in sorted(glob.glob('evidence/*.json')):
    e = json.load(open(f))
    jsonschema.validate(e, sch)
    if claimed.get(e['property_id']) != e['level']:
        print('LEVEL MISMATCH', f, e['level'], 'manifest:', claimed.get(e['property_id'])); bad += 1
    else:
        print('ok', f)
missing = sorted(set(claimed) - {json.load(open(f))['property_id'] for f in glob.glob('evidence/*.json')})
if missing:
    print('NO EVIDENCE FOR', missing); bad += 1
print('manifest ok' if not bad else 'PROBLEMS')
sys.exit(1 if bad else 0)
