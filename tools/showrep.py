import json,sys,glob
for f in sorted(glob.glob(sys.argv[1])):
    m=json.load(open(f))
    print('-----',f); print(m['case'] if isinstance(m['case'],str) else json.dumps(m['case'],indent=1)[:3000])
    e,o=m.get('expected'),m.get('observed')
    if isinstance(e,dict) and isinstance(o,dict):
        for k in e:
            if e[k]!=o.get(k): print('  ',k,'\n    exp',str(e[k])[:600],'\n    obs',str(o.get(k))[:600])
    else:
        print('  exp',str(e)[:1500]); print('  obs',str(o)[:1500])
    if m.get('detail'): print('  detail', str(m['detail'])[:1500])
