"""Ad-hoc differential probe: python tools/diff1.py 'src' ['src2' ...] (or - for stdin, one program per '----' block)."""
import asyncio, sys, os
sys.path.insert(0, os.path.dirname(os.path.dirname(os.path.abspath(__file__))))
from vlib import l1

def observe(g, exc, tr, inj):
    vis = l1.visible_globals(g, inj) if g is not None else []
    return {"globals": {k: l1.canon(v) for k, v in vis}, "alias": l1.alias_partition(vis), "log": tr.log, "exc": l1.exc_class(exc), "msg": str(exc)[:100] if exc else None}

async def main(srcs):
    async with l1.bare_hass() as hass:
        for src in srcs:
            t1 = l1.Tracer(); inj1 = t1.injected()
            g1, e1, ok = l1.run_cpython(src, inj1)
            t2 = l1.Tracer(); inj2 = t2.injected()
            g2, e2, _ = await l1.run_pyscript(src, inj2)
            o1, o2 = observe(g1, e1, t1, inj1), observe(g2, e2, t2, inj2)
            same = all(o1[k] == o2[k] for k in ("globals", "alias", "log", "exc"))
            print("=" * 60); print(src); print("SAME" if same else "DIFF")
            if not same:
                for k in ("globals", "alias", "log", "exc", "msg"):
                    if o1[k] != o2[k]:
                        print(f"  {k}:\n    cpy: {o1[k]}\n    pys: {o2[k]}")

srcs = sys.argv[1:]
if srcs == ["-"]:
    srcs = [s.strip("\n") for s in sys.stdin.read().split("\n----\n") if s.strip()]
asyncio.run(main(srcs))
