"""Sensitivity helper: copy /repo's package to a scratch dir, apply one textual mutation (or a patch), run a check's
quick tier against it with VERIF_REPO, report exit code, delete the scratch copy.
  python tools/mutant.py C01 --file eval.py --old 'A' --new 'B' [--count 1] [--tests]
  python tools/mutant.py C01 --patch path.diff
"""
import argparse, os, shutil, subprocess, sys, tempfile
ap = argparse.ArgumentParser()
ap.add_argument("prop"); ap.add_argument("--file"); ap.add_argument("--old"); ap.add_argument("--new")
ap.add_argument("--patch"); ap.add_argument("--script"); ap.add_argument("--tests", action="store_true"); ap.add_argument("--tier", default="quick")
ap.add_argument("--seed", default="1")
a = ap.parse_args()
d = tempfile.mkdtemp(prefix="verif-mutant-")
try:
    subprocess.check_call(["rsync", "-a", "--exclude", ".git", "--exclude", "__pycache__", "/repo/", d + "/"])
    if a.script:
        subprocess.check_call([sys.executable, a.script, d])
    elif a.patch:
        subprocess.check_call(["patch", "-p1", "-s", "-d", d, "-i", os.path.abspath(a.patch)])
    else:
        p = os.path.join(d, "custom_components/pyscript", a.file)
        s = open(p).read()
        n = s.count(a.old)
        if n != 1:
            print(f"mutation site count = {n}", file=sys.stderr); sys.exit(3)
        open(p, "w").write(s.replace(a.old, a.new))
    if a.tests:
        r = subprocess.run(["/venv/bin/python", os.path.join(os.path.dirname(__file__), "baseline.py"), d], capture_output=True, text=True)
        print("baseline:", r.stdout.strip().split("\n")[0], "rc", r.returncode)
    env = dict(os.environ, VERIF_REPO=d, VERIF_SEED=a.seed, VERIF_EVIDENCE_DIR=os.path.join(d, "_evidence"), VERIF_REPLAY_DIR=os.path.join(d, "_replays"))
    r = subprocess.run(["/venv/bin/python", os.path.join(os.path.dirname(os.path.dirname(os.path.abspath(__file__))), "run.py"), a.prop, "--tier", a.tier], env=env, capture_output=True, text=True, timeout=1500)
    out = r.stdout.strip().split("\n")
    print("\n".join(out[-6:]))
    if r.returncode == 2: print(r.stderr[-1500:])
    print("MUTANT", "CAUGHT" if r.returncode == 1 else ("MISSED" if r.returncode == 0 else "ERROR"), "rc", r.returncode)
    # show first violation's replay
    for l in out:
        if l.startswith("VIOLATION"):
            rp = l.split("replay=")[1]
            rp = rp if os.path.isabs(rp) else os.path.join(d, "_replays", "..", rp)
            break
finally:
    shutil.rmtree(d, ignore_errors=True)
