"""Run the repository's pinned baseline (guard off) and compare with BASELINE.json's stable_pass list.
Usage: python tools/baseline.py [repo_dir]; exit 0 iff every stable_pass test passed."""
import json, os, subprocess, sys, tempfile, xml.etree.ElementTree as ET
repo = sys.argv[1] if len(sys.argv) > 1 else "/repo"
base = json.load(open("/root/.vp/BASELINE.json"))
fd, xml = tempfile.mkstemp(suffix=".xml"); os.close(fd)
env = dict(os.environ); env.pop("PYSCRIPT_VERIF", None)
p = subprocess.run(["/venv/bin/python", "-m", "pytest", "-ra", "-q", "-p", "no:cacheprovider", "--timeout=900",
                    "--continue-on-collection-errors", f"--junitxml={xml}"], cwd=repo, env=env,
                   stdout=subprocess.PIPE, stderr=subprocess.STDOUT, text=True)
passed = set()
for tc in ET.parse(xml).getroot().iter("testcase"):
    if not any(c.tag in ("failure", "error", "skipped") for c in tc):
        passed.add(f"{tc.get('classname')}::{tc.get('name')}")
os.unlink(xml)
missing = [t for t in base["stable_pass"] if t not in passed]
print(f"baseline: {len(base['stable_pass']) - len(missing)}/{len(base['stable_pass'])} stable tests pass; newly passing extras: {len(passed - set(base['stable_pass']))}")
for t in missing: print("MISSING", t)
sys.exit(1 if missing else 0)
