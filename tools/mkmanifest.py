"""Regenerate MANIFEST.json from the table below (keeps it schema-valid at all times)."""
import json, os, subprocess
V = os.path.dirname(os.path.dirname(os.path.abspath(__file__)))
CHECKS = {
 "C01": dict(engine="interp", technique="differential property-based testing against CPython (exhaustive operator/evaluation-order tables + Hypothesis-generated programs)",
   text="Exploration: ~43k exhaustively enumerated table programs (operators x operand kinds, evaluation order with a tracer/raiser at every operand position, slices, unpacking) plus Hypothesis-generated nested straight-line programs (8k quick / 320k thorough), each executed by CPython and by pyscript's interpreter and compared on final globals, aliasing, ordered side-effect log and exception type. Exhaustive on the tables, sampled beyond; cannot prove absence.",
   note="Trusts CPython 3.12 as reference; set iteration order and identity of equal immutable literals are not compared; constructs documented as unsupported (generators, yield, match, script-defined dunder methods) are not generated.", ref="2.C01"),
 "C02": dict(engine="interp", technique="differential property-based testing against CPython (exhaustive control-flow skeletons to depth 2/3 + Hypothesis-generated skeletons to depth 6)",
   text="Exploration: every nesting of 24 construct/slot shapes to depth 2 (quick, ~5k programs) or 3 (thorough, ~130k) with each of 10 jump/raise leaves in the innermost slot and tracers in all other slots, plus Hypothesis-generated skeleton programs (6k quick / 200k thorough) with parameterised context managers; each run by CPython and pyscript and compared on the ordered tracer log, return value, exception type, __cause__ and __suppress_context__. Exhaustive for the stated skeleton family, sampled beyond.",
   note="Trusts CPython 3.12 as reference; implicit __context__ chaining is not compared; BaseException-only subclasses are excluded (open finding C02-baseexception-not-caught); a reference run that does not terminate within 2 s or 3000 tracer calls is not a case.", ref="2.C02"),
 "C03": dict(engine="interp", technique="differential property-based testing against CPython (exhaustive argument-binding table + Hypothesis-generated scoping and multi-function programs)",
   text="Exploration: all 756 signatures with <=2 parameters of each kind and every default placement, each called with every generated call shape (0-4 positionals x keyword sets incl. unknown and reserved names x * / ** unpacking), plus Hypothesis-generated name-resolution programs (nested defs to depth 3/4 over three names with every binding form, global/nonlocal, class bodies, closures in loops) and multi-function programs (recursion, decorators, defaults, classes with inheritance, bound methods, @pyscript_compile); compared with CPython on results, ordered tracer log and exception class. Exhaustive on the binding table, sampled beyond.",
   note="Trusts CPython 3.12; the documented reserved-keyword deviation is applied to the reference from the documentation's list; documented limitations and the open C03 findings (see known_findings.json) are not generated.", ref="2.C03"),
 "C05": dict(engine="integ", technique="model-based property testing on a virtual clock (bounded-exhaustive configurations x short histories, Hypothesis-generated longer histories) against a reference timeline model",
   text="Exploration: all 216 configurations (state_check_now x state_hold x state_hold_false x initial truth x decorator/task.wait_until x new/legacy subsystem) with every history of <= 2 (quick) / <= 3 (thorough) relevant operations, plus Hypothesis-generated timed histories up to 12 operations including unwatched and attribute-only changes, executed in the real integration on a harness-owned virtual clock; recorded run times and arguments are compared with a timeline state machine written from the documentation. Exhaustive for the bounded family, sampled beyond.",
   note="Trusts Home Assistant's state machine and the harness clock injection (trigger.dt_now, time.monotonic of trigger.py / decorators/timing.py, loop.time()); event times keep >= 100 ms distance from every deadline so the 5 ms tolerance never decides a verdict.", ref="2.C05"),
 "C04": dict(engine="integ", technique="model-based property testing (Hypothesis-generated trigger scripts and state histories, reference evaluator on structured expressions, both decorator subsystems)",
   text="Exploration: Hypothesis-generated scripts (1-3 functions x 1-2 @state_trigger decorators with any-change forms, expressions over 3 entities x 2 attributes incl. .old, int() casts, and/or/not, undefined names, list arguments, watch=, kwargs overrides) and histories of settled operations and bursts, executed in the real integration under both subsystems; per decorator the ordered list of runs and their var_name/value/old_value/kwargs is compared with a reference model (dict state machine + CPython evaluation of the structured expression). 1.6k cases quick, 40k thorough.",
   note="Trusts Home Assistant's state machine; names outside watch= and .old of a non-changed entity are outside the documented contract and restricted as stated in the evidence assumptions; deviations for unlisted undefined names under watch= are attributed to the open finding C04-watch-unlisted-undefined-raises by a model variant that must reproduce the observed history exactly.", ref="2.C04"),
 "C06": dict(engine="integ", technique="property-based testing of the successor function against an independent calendar enumerator plus metamorphic successor laws; model-based run-loop check on a virtual clock",
   text="Exploration: (A) 12k (quick) / 600k (thorough) Hypothesis-generated (specification list, current time) pairs - structured once/period/cron specifications rendered to text, current times biased to denoted instants +/- 1 us, leap day, month/year ends and US/Pacific transition days - where TrigTime.timer_trigger_next must equal the least denoted instant after now computed by an independent enumerator that never parses the string, and satisfy successor laws (strictly later, idempotence, no skip, list = minimum, real elapsed time for cron across DST); (B) 192 / 6400 run-loop cases where a @time_trigger function on the virtual clock must run exactly once per denoted instant with trigger_time equal to it, startup/shutdown once, in both subsystems.",
   note="Trusts astral sun times from Home Assistant and zoneinfo; weekday/today/tomorrow dates are only covered by the laws; nonexistent local times (spring-forward hour) are not used as current time; croniter's mis-reading of degenerate ranges a-a is third-party and not generated.", ref="2.C06"),
 "C07": dict(engine="integ", technique="property-based testing of the window check against an independent matcher; model-based integration check of guards and hold_off on a virtual clock",
   text="Exploration: (A) 6k (quick) / 300k (thorough) generated lists of 1-4 positive/negated range()/cron() specifications evaluated by TrigTime.timer_active_check at end points +/- 1 us and random times against an independent matcher; (B) 640 / 24k generated integration histories (state / time / event trigger x @state_active expression x @time_active list x hold_off x decorator order x subsystem; occurrences, guard toggles and direct calls at generated virtual times) compared with a model of 'runs iff guard and window and hold-off'.",
   note="Trusts astral sun times and Home Assistant's bus; part B keeps >= 0.25 s between occurrences and window edges / hold-off deadlines.", ref="2.C07"),
 "C08": dict(engine="integ", technique="model-based property testing of message delivery (Hypothesis-generated trigger sets and burst histories; round-trip and context-parent oracles)",
   text="Exploration: 800 (quick) / 30k (thorough) generated cases - event triggers (shared/distinct types, filter expressions, kwargs, several decorators per function, sleeping runs) under bursts of up to 20 events, MQTT and webhook triggers through recording fakes of the Home Assistant subscription boundary - in both subsystems; per decorator the ordered runs and their kwargs must equal the matching messages, runs start at the fire instant, emitted events/state changes/service calls carry exactly the given parameters and a context parented to the occurrence, and subscriptions are single and released on unload.",
   note="Home Assistant's event bus, MQTT client and HTTP webhook view are trusted; only the boundary functions mqtt.async_subscribe / webhook.async_register are replaced by fakes.", ref="2.C08"),
 "C16": dict(engine="integ", technique="model-based property testing of operation sequences against a dictionary model of the state machine",
   text="Exploration: 1.2k (quick) / 40k (thorough) Hypothesis-generated sequences of 3-25 state-variable operations (read, attribute read, assignment, attribute assignment, state.set in every argument combination, setattr, delete, exist, names, getattr, snapshots, precedence of services and Python variables, external changes) issued from script code in the real integration; after every step the value or exception type seen by the script and Home Assistant's state machine are compared with a dict model.",
   note="Trusts Home Assistant's state machine for storage; only valid entity ids and short state strings; state.set with neither value nor attributes on a missing entity is outside the documented contract and not generated.", ref="2.C16"),
}
NOT_YET = "check not built yet in this round (see DESIGN.md section 2 for the plan)"
props = [json.loads(l)["id"] for l in open(os.path.join(V, "properties.jsonl"))]
fix_commits = []
try:
    kf = json.load(open(os.path.join(V, "known_findings.json")))
except Exception:
    kf = {"findings": []}
man = {
 "version": 1,
 "setup_cmd": "/venv/bin/python -c 'import hypothesis' 2>/dev/null || /venv/bin/pip install --no-index --find-links /opt/veriftools/wheels hypothesis",
 "hooks": {"guard": "PYSCRIPT_VERIF", "enable": "no source hooks are needed: every observation point is reached from outside (class-level tables, hass.bus/services/states, logger handlers); the clock is injected by patching module attributes from the harness",
           "baseline_off_cmd": "cd /repo && /venv/bin/python -m pytest -ra -q -p no:cacheprovider --timeout=900 --continue-on-collection-errors",
           "source_commits": [], "add_only": True},
 "engines": [
   {"name": "interp", "path": "vlib/l1.py", "serves_properties": ["C01", "C02", "C03", "C17", "C18"], "kind_free_text": "bare AstEval interpreter vs CPython on the same source text (differential PBT)"},
   {"name": "integ", "path": "vlib/l3.py", "serves_properties": ["C04","C05","C06","C07","C08","C09","C10","C11","C12","C13","C14","C15","C16","C18"], "kind_free_text": "whole integration in a Home Assistant test instance on a virtual-clock event loop, histories generated by Hypothesis, reference models from docs/reference.rst"},
 ],
 "checks": [], "not_applicable": [],
 "notes": "All checks: `/venv/bin/python run.py <id> --tier quick|thorough`; VERIF_SEED seeds every Hypothesis shard; exit 0 held / 1 VIOLATION / 2 harness error or inconclusive. known_findings.json lists open findings (printed as KNOWN-FINDING) and repaired defects (fixed: entries, regress tier).",
}
for pid in props:
    if pid in CHECKS:
        c = CHECKS[pid]
        man["checks"].append({
          "property_id": pid, "quick_cmd": f"/venv/bin/python run.py {pid} --tier quick", "thorough_cmd": f"/venv/bin/python run.py {pid} --tier thorough",
          "evidence_file": f"evidence/{pid}.json", "replay_cmd_template": f"/venv/bin/python run.py {pid} --replay {{path}}", "engine": c["engine"],
          "level_claimed": {"category": c.get("category", "exploration"), "text": c["text"], "design_ref": c["ref"]}, "level_note": c["note"], "technique": c["technique"]})
    else:
        man["not_applicable"].append({"property_id": pid, "reason": NOT_YET})
json.dump(man, open(os.path.join(V, "MANIFEST.json"), "w"), indent=1)
print("checks:", [c["property_id"] for c in man["checks"]], "n/a:", len(man["not_applicable"]))
