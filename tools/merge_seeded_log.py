"""Merge the verdict lines of a (possibly interrupted) tools/run_seeded.py log into seeded/RESULTS.md.
usage: merge_seeded_log.py <log> [<log> ...]"""
import os, re, subprocess, sys
ROOT = os.path.dirname(os.path.dirname(os.path.abspath(__file__)))
res_path = os.path.join(ROOT, "seeded", "RESULTS.md")
head = subprocess.check_output(["git", "-C", "/repo", "log", "--format=%h", "-1"], text=True).strip()
rows = {}
for line in open(res_path):
    m = re.match(r"\| (C\d\d-\d) \| (C\d\d) \| (.*?) \| (.*?) \|(?: (\w+) \|)?$", line.strip())
    if m and os.path.isdir(os.path.join(ROOT, "seeded", m.group(1))):
        rows[(m.group(1), m.group(2))] = [m.group(3), m.group(4), m.group(5) or "2f6c3ba"]
for log in sys.argv[1:]:
    for line in open(log):
        m = re.match(r"(C\d\d-\d) (C\d\d) (CAUGHT|MISSED|ERROR.*)$", line.strip())
        if m and os.path.isdir(os.path.join(ROOT, "seeded", m.group(1))):
            rows[(m.group(1), m.group(2))] = [m.group(3), "", head]
with open(res_path, "w") as fh:
    fh.write(f"Seeded changes against the quick tier (VERIF_SEED=1); the last column names the /repo commit the row was run at\n\n| seeded change | check | verdict | violation buckets | run at |\n|---|---|---|---|---|\n")
    for (sid, chk), (v, n, h) in sorted(rows.items()):
        fh.write(f"| {sid} | {chk} | {v} | {n} | {h} |\n")
print(len(rows), "rows")
