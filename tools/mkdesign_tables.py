"""Regenerate the generated tables of DESIGN.md (between <!-- BEGIN x --> / <!-- END x --> markers) from
known_findings.json, seeded/*/meta.json and evidence/*.json.  usage: python tools/mkdesign_tables.py"""
import glob
import json
import os
import re

ROOT = os.path.dirname(os.path.dirname(os.path.abspath(__file__)))


def findings_tables():
    d = json.load(open(os.path.join(ROOT, "known_findings.json")))["findings"]
    fixed = [f for f in d if f["status"].startswith("fixed")]
    opened = [f for f in d if f["status"] == "open"]
    L = [f"**Repaired in /repo ({len(fixed)} `fix:` commits' worth of entries; each reproducer is replayed by its check on every run and fails it if the behaviour returns).**", "",
         "| property | finding id | commit | what failed |", "|---|---|---|---|"]
    for f in sorted(fixed, key=lambda f: (f["property"], f["id"])):
        L.append(f"| {f['property']} | `{f['id']}` | `{f['status'].split(': ')[1]}` | {f['description']} |")
    L += ["", f"**Open ({len(opened)}; printed as `KNOWN-FINDING` lines, exit 0; any other disagreement of the same property is still a VIOLATION).**", "",
          "| property | finding id | what fails | why not repaired |", "|---|---|---|---|"]
    for f in sorted(opened, key=lambda f: (f["property"], f["id"])):
        L.append(f"| {f['property']} | `{f['id']}` | {f['description']} | {f.get('why_open', f.get('note', ''))} |")
    return "\n".join(L)


def seeded_table():
    L = ["| seeded change | site | needs, to manifest | result |", "|---|---|---|---|"]
    for m in sorted(glob.glob(os.path.join(ROOT, "seeded", "*", "meta.json"))):
        sid = os.path.basename(os.path.dirname(m))
        meta = json.load(open(m))
        diff = open(os.path.join(os.path.dirname(m), "patch.diff")).read()
        files = sorted(set(re.findall(r"^\+\+\+ b/custom_components/pyscript/(\S+)", diff, re.M)))
        L.append(f"| {sid} | {', '.join(files)} | {meta['needs_to_manifest']} | {meta.get('check_result', '')}{(' - ' + meta['note']) if meta.get('note') else ''} |")
    return "\n".join(L)


def evidence_table():
    L = ["| property | tier | evaluations | distinct non-trivial | open findings hit | wall (s) |", "|---|---|---|---|---|---|"]
    for p in sorted(glob.glob(os.path.join(ROOT, "evidence", "C*.json"))):
        e = json.load(open(p))
        c = e["coverage"]
        L.append(f"| {e['property_id']} | {e.get('tier', '')} | {c['evaluations']} | {c['distinct_nontrivial']} | {len(c.get('known_finding_hits', {}))} | {e.get('wall_s', '')} |")
    return "\n".join(L)


def main():
    path = os.path.join(ROOT, "DESIGN.md")
    s = open(path).read()
    for name, fn in (("findings", findings_tables), ("seeded", seeded_table), ("evidence", evidence_table)):
        a, b = f"<!-- BEGIN {name} -->", f"<!-- END {name} -->"
        if a in s and b in s:
            i, j = s.index(a) + len(a), s.index(b)
            s = s[:i] + "\n" + fn() + "\n" + s[j:]
    open(path, "w").write(s)


if __name__ == "__main__":
    main()
