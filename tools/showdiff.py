import json,glob,sys
for f in sorted(glob.glob(sys.argv[1])):
    m=json.load(open(f)); print('-----',m['bucket']); c=m['case']; print('  ', {k:v for k,v in c.items() if k not in ('specs',)})
    e,o=m['expected'],m['observed']
    if isinstance(e,list) and isinstance(o,list):
        i=0
        while i<min(len(e),len(o)) and e[i]==o[i]: i+=1
        print('   first diff at',i,'exp',e[max(0,i-2):i+3],'obs',o[max(0,i-2):i+3],'len',len(e),len(o))
    else: print('  exp',str(e)[:500],'\n  obs',str(o)[:500])
