"""Confirm a seeded change in its scratch worktree and keep it under /verif/seeded/<id>/.
usage: keep_seed.py <prop> <n> <worktree> "<what it needs to manifest>" [--check-result CAUGHT|MISSED] [--note text]"""
import argparse, json, os, shutil, subprocess, sys
ap = argparse.ArgumentParser(); ap.add_argument("prop"); ap.add_argument("n"); ap.add_argument("wt"); ap.add_argument("needs")
ap.add_argument("--check-result", default=""); ap.add_argument("--note", default=""); ap.add_argument("--as", dest="as_n", default=None, help="index to store under (second round: 3, 4)")
a = ap.parse_args()
wt = a.wt; sd = os.path.join(wt, "_seed"); diff = os.path.join(sd, f"change{a.n}.diff"); demo = os.path.join(sd, f"change{a.n}_demo.py")
def run(cmd, **kw): return subprocess.run(cmd, cwd=wt, capture_output=True, text=True, timeout=1200, **kw)
def failing_ids():
    r = run(["/venv/bin/python", "-m", "pytest", "-q", "-p", "no:cacheprovider", "-rfE"]) 
    ids = sorted({l.split(" ")[1] for l in r.stdout.splitlines() if l.startswith(("FAILED ", "ERROR "))})
    tail = r.stdout.strip().splitlines()[-1] if r.stdout.strip() else ""
    return ids, tail
run(["git", "checkout", "--", "custom_components"])
d0 = run(["/venv/bin/python", demo]).returncode
base_ids, base_tail = failing_ids()
ap_ = run(["git", "apply", diff]); assert ap_.returncode == 0, ap_.stderr
d1 = run(["/venv/bin/python", demo]).returncode
mut_ids, mut_tail = failing_ids()
run(["git", "checkout", "--", "custom_components"])
ok = d0 == 0 and d1 != 0 and mut_ids == base_ids
print(f"{a.prop}-{a.as_n or a.n}: demo clean rc={d0}, demo with change rc={d1}, suite clean '{base_tail}', with change '{mut_tail}', same failing set={mut_ids == base_ids} -> {'KEEP' if ok else 'REJECT'}")
if ok:
    out = os.path.join("/verif/seeded", f"{a.prop}-{a.as_n or a.n}"); os.makedirs(out, exist_ok=True)
    for extra in ("harness.py",):
        if os.path.exists(os.path.join(sd, extra)):
            shutil.copy(os.path.join(sd, extra), os.path.join(out, extra))
    shutil.copy(diff, os.path.join(out, "patch.diff")); shutil.copy(demo, os.path.join(out, "demo.py"))
    meta = {"property": a.prop, "breaks": a.prop, "needs_to_manifest": a.needs, "confirmed": {"demo_clean_rc": d0, "demo_with_change_rc": d1, "suite_clean": base_tail, "suite_with_change": mut_tail, "failing_set_identical": True},
            "ran": [f"cd <scratch worktree> && /venv/bin/python _seed/change{a.n}_demo.py (clean and with patch applied)", "/venv/bin/python -m pytest -q -p no:cacheprovider -rfE (clean and with patch applied; failing ids compared)", f"/venv/bin/python tools/mutant.py {a.prop} --patch seeded/{a.prop}-{a.as_n or a.n}/patch.diff"],
            "check_result": a.check_result, "note": a.note, "origin": "independent sub-agent given only the property text and a scratch worktree"}
    json.dump(meta, open(os.path.join(out, "meta.json"), "w"), indent=1)
sys.exit(0 if ok else 1)
