"""Run one source text in the bare interpreter and print selected globals: probe1.py file.py name1 name2 ..."""
import asyncio, sys
sys.path.insert(0, '/verif')
from vlib import l1

async def main():
    src = open(sys.argv[1]).read()
    async with l1.bare_hass(allow_all_imports='--all' in sys.argv) as hass:
        g, exc, ctx = await l1.run_pyscript(src)
        print("EXC", type(exc).__name__ if exc else None, exc)
        for n in sys.argv[2:]:
            if n != '--all':
                print(n, '=', repr(g.get(n, '<unset>')))
asyncio.run(main())
