"""Run the hand-written sensitivity mutants of mutants/list.json (one textual edit each) against the quick tier of their
check on a scratch copy of /repo and write mutants/RESULTS.md.  A mutant whose site is not unique is reported as SKIPPED."""
import json, os, re, subprocess, sys
ROOT = os.path.dirname(os.path.dirname(os.path.abspath(__file__)))
rows = []
for m in [m_ for f_ in ("list.json", "list2.json") if os.path.exists(os.path.join(ROOT, "mutants", f_)) for m_ in json.load(open(os.path.join(ROOT, "mutants", f_)))] if len(sys.argv) < 2 else json.load(open(os.path.join(ROOT, "mutants", sys.argv[1]))):
    r = subprocess.run([sys.executable, os.path.join(ROOT, "tools", "mutant.py"), m["check"], "--file", m["file"], "--old", m["old"], "--new", m["new"]], capture_output=True, text=True, timeout=3000)
    mm = re.search(r"MUTANT (\w+)", r.stdout)
    verdict = mm.group(1) if mm else ("SKIPPED" if "mutation site count" in r.stderr else "ERROR")
    rows.append((m["check"], m["file"], m["what"], verdict))
    print(*rows[-1], flush=True)
with open(os.path.join(ROOT, "mutants", "RESULTS.md" if len(sys.argv) < 2 else "RESULTS_" + sys.argv[1].replace(".json", "") + ".md"), "w") as fh:
    fh.write("Hand-written sensitivity mutants (one textual edit each) against the quick tier, VERIF_SEED=1\n\n| check | file | mutation | verdict |\n|---|---|---|---|\n")
    for row in rows:
        fh.write("| " + " | ".join(row) + " |\n")
