"""Round-3 intake: confirm a sub-agent's change in its scratch worktree (tools/keep_seed.py), then run the quick tier of the
property's check (and of any extra checks) against a scratch copy with the change applied (tools/mutant.py).
usage: round3.py <prop> <n> <as_n> "<needs>" [also-prop ...]"""
import json, os, re, subprocess, sys
ROOT = os.path.dirname(os.path.dirname(os.path.abspath(__file__)))
prop, n, as_n, needs = sys.argv[1:5]
also = sys.argv[5:]
wt = os.path.join(os.environ.get("RT_DIR", "/tmp/rt3"), prop)
r = subprocess.run([sys.executable, os.path.join(ROOT, "tools", "keep_seed.py"), prop, n, wt, needs, "--as", as_n], capture_output=True, text=True)
print(r.stdout.strip().splitlines()[-1] if r.stdout.strip() else r.stderr[-500:], flush=True)
if r.returncode != 0:
    sys.exit(1)
sid = f"{prop}-{as_n}"
out = {}
for p in [prop] + also:
    m = subprocess.run([sys.executable, os.path.join(ROOT, "tools", "mutant.py"), p, "--patch", os.path.join(ROOT, "seeded", sid, "patch.diff")], capture_output=True, text=True, timeout=3000)
    v = re.search(r"MUTANT (\w+) rc (\d+)", m.stdout)
    out[p] = v.group(1) if v else "ERROR " + (m.stderr.strip().splitlines() or m.stdout.strip().splitlines() or ["?"])[-1][:200]
    print(sid, p, out[p], flush=True)
    open(f"/tmp/rt_out/{sid}.{p}.log", "w").write(m.stdout + "\n" + m.stderr)
mp = os.path.join(ROOT, "seeded", sid, "meta.json")
meta = json.load(open(mp)); meta["first_run"] = out
if also: meta["also"] = also
json.dump(meta, open(mp, "w"), indent=1)
