"""Run every kept seeded change (seeded/<id>/patch_rebased.diff or patch.diff) against the quick tier of the check of
its property (plus the checks named in meta.json "also") on a scratch copy of /repo, and write seeded/RESULTS.md.
Nothing is ever applied to /repo.   usage: python tools/run_seeded.py [id-prefix ...]"""
import glob
import json
import os
import re
import subprocess
import sys

ROOT = os.path.dirname(os.path.dirname(os.path.abspath(__file__)))
OLD_HEAD = "2f6c3ba"  # the commit the rows of the previous full run belong to


def main():
    want = sys.argv[1:]
    rows = []
    for meta_p in sorted(glob.glob(os.path.join(ROOT, "seeded", "*", "meta.json"))):
        d = os.path.dirname(meta_p)
        sid = os.path.basename(d)
        if want and not any(sid.startswith(w) for w in want):
            continue
        meta = json.load(open(meta_p))
        if meta.get("neutralised_by"):
            rows.append((sid, meta["property"], f"NEUTRALISED by the repair {meta['neutralised_by']} (the change no longer breaks the property; its demo passes)", ""))
            print(sid, "NEUTRALISED", flush=True)
            continue
        patch = os.path.join(d, "patch_rebased.diff")
        if not os.path.exists(patch):
            patch = os.path.join(d, "patch.diff")
        for prop in [meta["property"]] + list(meta.get("also", [])):
            r = subprocess.run([sys.executable, os.path.join(ROOT, "tools", "mutant.py"), prop, "--patch", patch], capture_output=True, text=True, timeout=3000)
            m = re.search(r"MUTANT (\w+) rc (\d+)", r.stdout)
            verdict = m.group(1) if m else "ERROR(" + (r.stderr.strip().splitlines() or ["?"])[-1][:80] + ")"
            n = re.search(r"violations=(\d+)", r.stdout)
            rows.append((sid, prop, verdict, n.group(1) if n else ""))
            print(sid, prop, verdict, flush=True)
    head = subprocess.check_output(["git", "-C", os.environ.get("VERIF_REPO", "/repo"), "log", "--format=%h", "-1"], text=True).strip()
    res_path = os.path.join(ROOT, "seeded", "RESULTS.md")
    if want and os.path.exists(res_path):
        # partial run: rows of the changes that were not run again are kept, marked with the commit they were run at
        done = {(r[0], r[1]) for r in rows}
        for line in open(res_path):
            m = re.match(r"\| (C\d\d-\d) \| (C\d\d) \| ([^|]*?) \| ([^|]*?) \|( (\w+) \|)?$", line.strip())
            if m and (m.group(1), m.group(2)) not in done and os.path.isdir(os.path.join(ROOT, "seeded", m.group(1))):
                rows.append((m.group(1), m.group(2), m.group(3), m.group(4), m.group(6) or OLD_HEAD))
        rows.sort(key=lambda r: (r[0], r[1]))
    with open(res_path, "w") as fh:
        fh.write(f"Seeded changes against the quick tier (VERIF_SEED=1); run against /repo at {head} unless the last column names an earlier commit\n\n| seeded change | check | verdict | violation buckets | run at |\n|---|---|---|---|---|\n")
        for row in rows:
            row = tuple(row) + ((head,) if len(row) == 4 else ())
            fh.write("| " + " | ".join(row) + " |\n")
    return 0 if all(v == "CAUGHT" or v.startswith("NEUTRALISED") for _, _, v, *_ in rows) else 1


if __name__ == "__main__":
    sys.exit(main())
