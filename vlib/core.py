"""Shared machinery: paths, seeds, Hypothesis-backed chooser, shard pool, evidence, findings.

Exit codes of every check: 0 = held on everything explored, 1 = VIOLATION printed,
2 = harness error / inconclusive (never a verdict).
"""

from __future__ import annotations

import hashlib
import json
import os
import subprocess
import sys
import time

VERIF = os.path.dirname(os.path.dirname(os.path.abspath(__file__)))
REPO = os.environ.get("VERIF_REPO", "/repo")
PY = sys.executable
NCPU = 16


def seed() -> int:
    try:
        return int(os.environ.get("VERIF_SEED", "1"))
    except ValueError:
        return 1


def h(obj) -> str:
    """Stable short content hash of a JSON-able object (or str)."""
    if not isinstance(obj, str):
        obj = json.dumps(obj, sort_keys=True, default=repr)
    return hashlib.sha1(obj.encode("utf-8", "replace")).hexdigest()[:12]


# ---------------------------------------------------------------------------
# Chooser: every random choice is a Hypothesis draw, but generators are plain
# recursive Python functions.
# ---------------------------------------------------------------------------


class Chooser:
    """Draw primitive choices from a Hypothesis `data` object.

    Choices are ordered simplest-first so that Hypothesis' integer shrinking
    (towards 0) shrinks towards simpler programs / histories.
    """

    def __init__(self, data):
        from hypothesis import strategies as st

        self._data = data
        self._st = st

    def int(self, lo, hi):
        return self._data.draw(self._st.integers(lo, hi))

    def choice(self, seq):
        seq = list(seq)
        return seq[self._data.draw(self._st.integers(0, len(seq) - 1))]

    def weighted(self, pairs):
        """pairs: [(weight:int, value)] -> value."""
        total = sum(w for w, _ in pairs)
        x = self._data.draw(self._st.integers(0, total - 1))
        for w, v in pairs:
            if x < w:
                return v
            x -= w
        return pairs[-1][1]

    def bool(self, p_num=1, p_den=2):
        """True with probability p_num/p_den."""
        return self._data.draw(self._st.integers(0, p_den - 1)) >= p_den - p_num

    def subset(self, seq):
        return [x for x in seq if self.bool()]

    def shuffle(self, seq):
        seq = list(seq)
        out = []
        while seq:
            out.append(seq.pop(self.int(0, len(seq) - 1)))
        return out

    def draw(self, strategy):
        return self._data.draw(strategy)


class ListChooser:
    """Replays a recorded list of integer choices (no Hypothesis); used by nothing random."""

    def __init__(self, values):
        self.values = list(values)
        self.i = 0


def run_hypothesis(case_fn, n_examples, shard_seed, max_draws=None):
    """Run `case_fn(Chooser)` n_examples times under Hypothesis (collect mode: case_fn never raises
    for a property disagreement; it records it)."""
    import hypothesis
    from hypothesis import HealthCheck, Phase, given, settings, strategies as st

    @hypothesis.seed(shard_seed)
    @settings(
        max_examples=n_examples,
        database=None,
        deadline=None,
        derandomize=False,
        report_multiple_bugs=False,
        suppress_health_check=list(HealthCheck),
        phases=[Phase.generate],
    )
    @given(st.data())
    def prop(data):
        case_fn(Chooser(data))

    prop()


def hyp_find_min(case_pred, shard_seed, max_examples=400):
    """Ask Hypothesis to find and shrink a case for which case_pred(Chooser) is truthy.

    Returns whatever case_pred returned on the minimal failing example, or None.
    """
    import hypothesis
    from hypothesis import HealthCheck, Phase, given, settings, strategies as st

    box = {}

    class Found(Exception):
        pass

    @hypothesis.seed(shard_seed)
    @settings(
        max_examples=max_examples,
        database=None,
        deadline=None,
        derandomize=False,
        report_multiple_bugs=False,
        suppress_health_check=list(HealthCheck),
        phases=[Phase.generate, Phase.shrink],
    )
    @given(st.data())
    def prop(data):
        r = case_pred(Chooser(data))
        if r:
            box["last"] = r
            raise Found()

    try:
        prop()
    except Found:
        return box.get("last")
    except Exception:  # flaky etc.
        return box.get("last")
    return None


def ddmin(items, pred, max_tests=400):
    """Classic delta debugging on a list; pred(list) -> True if still failing."""
    items = list(items)
    n = 2
    tests = 0
    while len(items) >= 2 and tests < max_tests:
        chunk = max(1, len(items) // n)
        reduced = False
        for i in range(0, len(items), chunk):
            cand = items[:i] + items[i + chunk :]
            tests += 1
            if cand and pred(cand):
                items = cand
                n = max(n - 1, 2)
                reduced = True
                break
            if tests >= max_tests:
                break
        if not reduced:
            if chunk == 1:
                break
            n = min(len(items), n * 2)
    return items


# ---------------------------------------------------------------------------
# Shard results
# ---------------------------------------------------------------------------


class ShardResult:
    """Accumulates what one shard did; JSON-serialisable."""

    def __init__(self):
        self.evaluations = 0
        self.nontrivial = set()  # content hashes of distinct non-trivial cases
        self.samples = []
        self.classes = {}
        self.mismatches = []  # dicts: bucket, case, expected, observed, detail
        self.counters = {}
        self.known_hits = {}  # finding id -> count
        self.errors = []  # harness errors (strings)

    def count(self, key, n=1):
        self.counters[key] = self.counters.get(key, 0) + n

    def klass(self, key, n=1):
        self.classes[key] = self.classes.get(key, 0) + n

    def case(self, case_repr, nontrivial, sample_cap=6):
        self.evaluations += 1
        if nontrivial:
            hh = h(case_repr)
            if hh not in self.nontrivial:
                self.nontrivial.add(hh)
                if len(self.samples) < sample_cap:
                    self.samples.append(case_repr)

    def mismatch(self, bucket, case, expected=None, observed=None, detail=None, cap_per_bucket=5):
        n = sum(1 for m in self.mismatches if m["bucket"] == bucket)
        self.count("mismatch:" + bucket)
        self.count("mismatch_total")
        if n < cap_per_bucket:
            self.mismatches.append(
                {"bucket": bucket, "case": case, "expected": expected, "observed": observed, "detail": detail}
            )

    def known(self, fid, n=1):
        self.known_hits[fid] = self.known_hits.get(fid, 0) + n

    def to_json(self):
        return {
            "evaluations": self.evaluations,
            "nontrivial": sorted(self.nontrivial),
            "samples": self.samples,
            "classes": self.classes,
            "mismatches": self.mismatches,
            "counters": self.counters,
            "known_hits": self.known_hits,
            "errors": self.errors,
        }


def merge_results(parts):
    out = {
        "evaluations": 0,
        "nontrivial": set(),
        "samples": [],
        "classes": {},
        "mismatches": [],
        "counters": {},
        "known_hits": {},
        "errors": [],
    }
    for p in parts:
        out["evaluations"] += p["evaluations"]
        out["nontrivial"].update(p["nontrivial"])
        for s in p["samples"]:
            if len(out["samples"]) < 8:
                out["samples"].append(s)
        for k in ("classes", "counters", "known_hits"):
            for kk, v in p[k].items():
                out[k][kk] = out[k].get(kk, 0) + v
        out["mismatches"].extend(p["mismatches"])
        out["errors"].extend(p["errors"])
    return out


# ---------------------------------------------------------------------------
# Sharded execution in sub-processes (own PYTHONHASHSEED, own alarm)
# ---------------------------------------------------------------------------


def run_shards(prop_id, tier, n_shards, hashseeds=None, timeout_s=1500, extra_env=None, sub=None):
    """Run `run.py <prop> --tier <tier> --shard i/n` for every i; return (parts, errors)."""
    import tempfile

    procs = []
    outdir = tempfile.mkdtemp(prefix=f"verif-{prop_id}-")
    for i in range(n_shards):
        env = dict(os.environ)
        env["PYTHONHASHSEED"] = str(hashseeds[i] if hashseeds else 0)
        env["VERIF_SEED"] = str(seed())
        env.setdefault("PYTHONDONTWRITEBYTECODE", "1")
        if extra_env:
            env.update(extra_env)
        out = os.path.join(outdir, f"shard{i}.json")
        cmd = [PY, "-X", "faulthandler", os.path.join(VERIF, "run.py"), prop_id, "--tier", tier]
        cmd += ["--shard", f"{i}/{n_shards}", "--out", out]
        if sub:
            cmd += ["--sub", sub]
        logf = open(os.path.join(outdir, f"shard{i}.log"), "wb")
        procs.append((i, out, logf, subprocess.Popen(cmd, env=env, stdout=logf, stderr=subprocess.STDOUT, cwd=VERIF)))
    parts, errors = [], []
    deadline = time.time() + timeout_s
    for i, out, logf, p in procs:
        try:
            rc = p.wait(timeout=max(1, deadline - time.time()))
        except subprocess.TimeoutExpired:
            p.kill()
            p.wait()
            rc = -9
        logf.close()
        log = ""
        try:
            with open(logf.name, "r", errors="replace") as f:
                log = f.read()[-3000:]
        except OSError:
            pass
        if rc != 0 or not os.path.exists(out):
            errors.append(f"shard {i} rc={rc}: {log}")
            continue
        with open(out) as f:
            parts.append(json.load(f))
    import shutil

    shutil.rmtree(outdir, ignore_errors=True)
    return parts, errors


# ---------------------------------------------------------------------------
# Known findings
# ---------------------------------------------------------------------------


def load_findings(prop_id):
    path = os.path.join(VERIF, "known_findings.json")
    try:
        with open(path) as f:
            data = json.load(f)
    except FileNotFoundError:
        return []
    return [e for e in data.get("findings", []) if e.get("property") == prop_id]


def open_findings(prop_id):
    return [e for e in load_findings(prop_id) if e.get("status") == "open"]


# ---------------------------------------------------------------------------
# Evidence / verdict
# ---------------------------------------------------------------------------


def finish(prop_id, tier, merged, rule, t0, level="exploration", assumptions=None, extra=None,
           known_lines=None, violations=None, exhaustive=None):
    """Write evidence, print verdict lines, and return the exit code.

    violations: list of dicts {bucket, replay(path)}; known_lines: list of strings.
    """
    violations = violations or []
    known_lines = known_lines or []
    cov = {
        "evaluations": int(merged["evaluations"]),
        "distinct_nontrivial": len(merged["nontrivial"]),
        "rule": rule,
        "samples": merged["samples"][:8] or ["<none>"],
        "classes": merged["classes"],
        "counters": merged["counters"],
        "known_finding_hits": merged["known_hits"],
        "violation_buckets": sorted({v["bucket"] for v in violations}),
    }
    if exhaustive is not None:
        cov["exhaustive"] = bool(exhaustive)
    if extra:
        cov.update(extra)
    ev = {
        "property_id": prop_id,
        "tier": tier,
        "seed": seed(),
        "level": level,
        "coverage": cov,
        "assumptions": assumptions or [],
        "wall_s": round(time.time() - t0, 2),
        "violations": len(violations),
    }
    evdir = os.environ.get("VERIF_EVIDENCE_DIR") or os.path.join(VERIF, "evidence")
    os.makedirs(evdir, exist_ok=True)
    with open(os.path.join(evdir, f"{prop_id}.json"), "w") as f:
        json.dump(ev, f, indent=1, sort_keys=True, default=repr)
        f.write("\n")
    for line in known_lines:
        print(line)
    for v in violations:
        print(f"VIOLATION property={prop_id} replay={v['replay']}")
    print(
        f"[{prop_id}] tier={tier} seed={seed()} evaluations={cov['evaluations']} "
        f"distinct_nontrivial={cov['distinct_nontrivial']} violations={len(violations)} "
        f"known={len(known_lines)} wall={ev['wall_s']}s"
    )
    if merged["errors"]:
        for e in merged["errors"][:5]:
            print(f"[{prop_id}] HARNESS-ERROR: {e[:2000]}", file=sys.stderr)
        if not violations:
            return 2
    if violations:
        return 1
    if cov["evaluations"] == 0 or cov["distinct_nontrivial"] < 2:
        print(f"[{prop_id}] inconclusive: too few non-trivial cases", file=sys.stderr)
        return 2
    return 0


def write_replay(prop_id, bucket, payload):
    d = os.path.join(os.environ.get("VERIF_REPLAY_DIR") or os.path.join(VERIF, "replays"), prop_id)
    os.makedirs(d, exist_ok=True)
    safe = "".join(c if c.isalnum() or c in "-_." else "_" for c in bucket)[:80]
    path = os.path.join(d, f"{safe}-{h(payload)}.json")
    with open(path, "w") as f:
        json.dump(payload, f, indent=1, sort_keys=True, default=repr)
        f.write("\n")
    return os.path.relpath(path, VERIF) if path.startswith(VERIF + os.sep) else path
