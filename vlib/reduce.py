"""AST-level program reducer used to minimise mismatching programs before bucketing (no randomness)."""

from __future__ import annotations

import ast
import copy


def _stmt_lists(tree):
    for node in ast.walk(tree):
        for field in ("body", "orelse", "finalbody", "handlers"):
            lst = getattr(node, field, None)
            if isinstance(lst, list) and lst and isinstance(lst[0], (ast.stmt, ast.ExceptHandler)):
                yield node, field, lst


def _unparse(tree):
    try:
        ast.fix_missing_locations(tree)
        src = ast.unparse(tree)
        compile(src, "<reduce>", "exec")
        return src
    except Exception:
        return None


async def reduce_source(src, still, max_tests=250):
    """Greedy reduction. `still(src) -> awaitable bool` says whether the candidate still shows the
    same disagreement. Returns the smallest source found."""
    tests = [0]
    best = src
    try:
        tree = ast.parse(src)
    except SyntaxError:
        return src

    async def accept(cand_tree):
        if tests[0] >= max_tests:
            return False
        s = _unparse(cand_tree)
        if s is None or len(s) >= len(best) and s != best:
            if s is None:
                return False
        if s == best:
            return False
        tests[0] += 1
        try:
            return bool(await still(s))
        except Exception:
            return False

    progress = True
    while progress and tests[0] < max_tests:
        progress = False
        # 1. remove statements
        paths = []
        for node, field, lst in _stmt_lists(tree):
            for i in range(len(lst)):
                paths.append((id(node), field, i))
        # operate by re-walking every time to keep indices valid
        idx = 0
        while tests[0] < max_tests:
            slots = [(node, field, i) for node, field, lst in _stmt_lists(tree) for i in range(len(lst))]
            if idx >= len(slots):
                break
            cand = copy.deepcopy(tree)
            cslots = [(node, field, i) for node, field, lst in _stmt_lists(cand) for i in range(len(lst))]
            node, field, i = cslots[idx]
            lst = getattr(node, field)
            removed = lst.pop(i)
            if not lst and field == "body":
                lst.append(ast.Pass())
                if isinstance(removed, ast.Pass):
                    idx += 1
                    continue
            if await accept(cand):
                tree = cand
                best = _unparse(tree)
                progress = True
            else:
                idx += 1
        # 2. simplify expressions: hoist a child expression or replace by a constant
        idx = 0
        while tests[0] < max_tests:
            exprs = [n for n in ast.walk(tree) if isinstance(n, ast.expr) and not isinstance(n, (ast.Constant, ast.Name))
                     and not isinstance(getattr(n, "ctx", None), (ast.Store, ast.Del))]
            if idx >= len(exprs):
                break
            target = exprs[idx]
            replaced = False
            children = [c for c in ast.iter_child_nodes(target) if isinstance(c, ast.expr)
                        and not isinstance(getattr(c, "ctx", None), (ast.Store, ast.Del)) and not isinstance(c, ast.Starred)]
            cands = children + [ast.Constant(value=0), ast.Constant(value=None)]
            for repl in cands:
                mapping = {}
                cand = _replace(tree, target, repl)
                if cand is None:
                    continue
                if await accept(cand):
                    tree = cand
                    best = _unparse(tree)
                    progress = True
                    replaced = True
                    break
            if not replaced:
                idx += 1
    return best


class _Replacer(ast.NodeTransformer):
    def __init__(self, target_pos, repl):
        self.count = -1
        self.target_pos = target_pos
        self.repl = repl
        self.done = False

    def generic_visit(self, node):
        return super().generic_visit(node)

    def visit(self, node):
        if isinstance(node, ast.expr):
            self.count += 1
            if self.count == self.target_pos and not self.done:
                self.done = True
                return copy.deepcopy(self.repl)
        return super().visit(node)


def _expr_positions(tree):
    """Pre-order positions as visited by NodeTransformer.visit."""
    out = []

    class V(ast.NodeVisitor):
        def visit(self, node):
            if isinstance(node, ast.expr):
                out.append(node)
            super().visit(node)

    V().visit(tree)
    return out


def _replace(tree, target, repl):
    order = _expr_positions(tree)
    try:
        pos = next(i for i, n in enumerate(order) if n is target)
    except StopIteration:
        return None
    cand = copy.deepcopy(tree)
    r = _Replacer(pos, repl)
    cand = r.visit(cand)
    return cand if r.done else None
