"""Generic differential check 'pyscript interpreter vs CPython on the same source' (C01, C02, C03)."""

from __future__ import annotations

import ast
import asyncio
import json
import time

from . import core, l1

BORING = {"Module", "Load", "Store", "Del", "Name", "Constant", "Expr", "Assign"}


def node_types(src):
    try:
        tree = ast.parse(src)
    except SyntaxError:
        return []
    return sorted({type(n).__name__ for n in ast.walk(tree)} - BORING)


def _unwrap(v):
    if type(v).__name__ == "EvalLocalVar":
        try:
            return v.get()
        except Exception:
            return v
    return v


def exc_info(e):
    if e is None:
        return None
    return {
        "type": l1.exc_class(e),
        "cause": l1.exc_class(e.__cause__),
        "suppress_context": bool(e.__suppress_context__),
    }


class DiffCheck:
    def __init__(self, prop, rule, predicates, inject=None, nontrivial=None, compare_exc_chain=False, assumptions=None):
        self.prop = prop
        self.rule = rule
        self.predicates = predicates
        self.inject = inject  # callable(tracer) -> dict of extra injected globals
        self.nontrivial = nontrivial
        self.compare_exc_chain = compare_exc_chain
        self.assumptions = assumptions or []

    # ---- observation
    def observe(self, g, exc, tr, inj):
        vis = [(k, _unwrap(v)) for k, v in l1.visible_globals(g, inj)] if g is not None else []
        return {
            "globals": {k: l1.canon(v) for k, v in vis},
            "alias": l1.alias_partition(vis),
            "log": [list(x) for x in tr.log],
            "exc": exc_info(exc) if self.compare_exc_chain else l1.exc_class(exc),
        }

    @staticmethod
    def diff_kinds(o1, o2):
        kinds = []
        if o1["exc"] != o2["exc"]:
            e1 = o1["exc"]["type"] if isinstance(o1["exc"], dict) else o1["exc"]
            e2 = o2["exc"]["type"] if isinstance(o2["exc"], dict) else o2["exc"]
            if e1 != e2:
                kinds.append(f"exc:{e1}->{e2}")
            else:
                kinds.append("exc-chain")
        if o1["log"] != o2["log"]:
            if sorted(map(str, o1["log"])) == sorted(map(str, o2["log"])):
                kinds.append("trace-order")
            elif len(o1["log"]) != len(o2["log"]):
                kinds.append("trace-count")
            else:
                kinds.append("trace-value")
        if o1["globals"] != o2["globals"]:
            kinds.append("value")
        if o1["alias"] != o2["alias"]:
            kinds.append("alias")
        return kinds

    async def both(self, src):
        t1 = l1.Tracer()
        inj1 = t1.injected()
        if self.inject:
            inj1.update(self.inject(t1))
        try:
            g1, e1, ok = l1.run_cpython(src, inj1)
        except l1.CaseTimeout:
            return None, None, False  # the reference itself does not terminate: not a case
        if not ok:
            return None, None, False
        t2 = l1.Tracer()
        inj2 = t2.injected()
        if self.inject:
            inj2.update(self.inject(t2))
        try:
            g2, e2, _ = await l1.run_pyscript(src, inj2)
        except l1.CaseTimeout:
            # CPython finished within its limit, pyscript did not within 20 s: report as a hang
            o1 = self.observe(g1, e1, t1, inj1)
            o2 = dict(o1)
            o2["exc"] = {"type": "<hang>", "cause": None, "suppress_context": False} if self.compare_exc_chain else "<hang>"
            o2["log"] = [list(x) for x in t2.log][:50]
            return o1, o2, True
        o1, o2 = self.observe(g1, e1, t1, inj1), self.observe(g2, e2, t2, inj2)
        if self.equalise_unhashable_display(src, e1, e2, o1, o2) == "incomparable":
            return None, None, False
        return o1, o2, True

    @staticmethod
    def equalise_unhashable_display(src, e1, e2, o1, o2):
        """CPython evaluates every operand of a dict / set display before it hashes the keys (BUILD_MAP / BUILD_SET), so an
        unhashable key raises only after the later operands ran; an interpreter that inserts as it goes raises at the key.
        Which operands run before that TypeError is a code-generation detail, not language semantics: when both sides
        raise the unhashable-type TypeError in a program with such a display, and pyscript's log is a prefix of CPython's,
        the logs are taken as equal; when CPython's later operand raised another exception first, the case is dropped."""
        if not (e1 is not None and isinstance(e2, TypeError) and "unhashable type" in str(e2)):
            return None
        try:
            tree = ast.parse(src)
        except SyntaxError:
            return None
        if not any(isinstance(n, (ast.Dict, ast.Set)) for n in ast.walk(tree)):
            return None
        if o1["log"][: len(o2["log"])] != o2["log"]:
            return None
        if isinstance(e1, TypeError) and "unhashable type" in str(e1):
            o2["log"] = [list(x) for x in o1["log"]]
            return "equalised"
        # CPython went on past the unhashable key and a later operand raised something else first: which of the two
        # exceptions wins depends on the same code-generation detail - the case is not comparable and is dropped
        return "incomparable"

    async def minimise(self, src, kinds, max_tests=250):
        from .reduce import reduce_source

        t_end = time.time() + 8.0

        async def still(s):
            if time.time() > t_end:
                return False
            o1, o2, ok = await self.both(s)
            return bool(ok and self.diff_kinds(o1, o2) == kinds)

        return await reduce_source(src, still, max_tests=max_tests)

    def match_known(self, src, kinds):
        try:
            tree = ast.parse(src)
        except SyntaxError:
            return None
        for f in core.open_findings(self.prop):
            p = self.predicates.get(f["id"])
            if p and p(tree, kinds):
                return f["id"]
        return None

    async def check_one(self, res, klass, src):
        o1, o2, ok = await self.both(src)
        if not ok:
            res.count("compile_rejected")
            return
        nt = self.nontrivial(src, o1) if self.nontrivial else True
        res.case(src, nt)
        res.klass(klass.split(":")[0])
        et = o1["exc"]["type"] if isinstance(o1["exc"], dict) else o1["exc"]
        if et:
            res.klass("raises:" + str(et))
        kinds = self.diff_kinds(o1, o2)
        if not kinds:
            return
        if len(res.mismatches) >= 12:
            # plenty of evidence already: record without spending time on minimisation
            res.mismatch("unminimised|" + "|".join(kinds), src, expected=o1, observed=o2, detail={"class": klass})
            return
        small = await self.minimise(src, kinds)
        o1m, o2m, _ = await self.both(small)
        kinds_m = self.diff_kinds(o1m, o2m)
        fid = self.match_known(small, kinds_m)
        if fid:
            res.known(fid)
            return
        bucket = "|".join(kinds_m) + "|" + ",".join(node_types(small))
        res.mismatch(bucket, small, expected=o1m, observed=o2m, detail={"original": src, "class": klass})

    # ---- driver pieces
    def regress_from_findings(self):
        out = []
        for f in core.load_findings(self.prop):
            if str(f.get("status", "")).startswith("fixed") and f.get("reproducer"):
                out.append((f["id"], f["reproducer"]))
        return out

    async def run_programs(self, res, programs, shard_i, shard_n, counter="table_programs"):
        for idx in range(shard_i, len(programs), shard_n):
            if res.counters.get("mismatch_total", 0) >= 300:
                break
            klass, src = programs[idx]
            await self.check_one(res, klass, src)
            res.count(counter)

    async def run_random(self, res, gen_fn, n_total, shard_i, shard_n, klass="random", batch=400):
        n_random = n_total // shard_n
        pending = []

        def case(R):
            pending.append(gen_fn(R))

        done = 0
        b = 0
        while done < n_random:
            n = min(batch, n_random - done)
            pending.clear()
            core.run_hypothesis(case, n, core.seed() * 100003 + shard_i * 1009 + b)
            for src in list(pending):
                if res.counters.get("mismatch_total", 0) >= 300:
                    break
                await self.check_one(res, klass, src)
            done += n
            b += 1
        res.count("random_programs", done)

    async def known_finding_lines(self):
        lines, stale = [], []
        async with l1.bare_hass():
            for f in core.open_findings(self.prop):
                o1, o2, ok = await self.both(f["reproducer"])
                kinds = self.diff_kinds(o1, o2) if ok else []
                if kinds:
                    lines.append(f"KNOWN-FINDING: property={self.prop} {f['id']}: {f['description']}")
                else:
                    stale.append(f["id"])
        return lines, stale

    def replay(self, path):
        async def go():
            with open(path) as fh:
                payload = json.load(fh)
            src = payload["case"]
            async with l1.bare_hass():
                o1, o2, ok = await self.both(src)
            kinds = self.diff_kinds(o1, o2) if ok else []
            print(src)
            print("cpython :", json.dumps(o1, default=repr)[:2000])
            print("pyscript:", json.dumps(o2, default=repr)[:2000])
            if kinds:
                print(f"VIOLATION property={self.prop} replay={path}")
                return 1
            print("no disagreement")
            return 0

        return asyncio.run(go())

    def main(self, tier, extra=None, timeout_s=3000, max_violation_lines=12):
        t0 = time.time()
        parts, errors = core.run_shards(self.prop, tier, core.NCPU, timeout_s=timeout_s)
        merged = core.merge_results(parts)
        merged["errors"].extend(errors)
        known_lines, stale = asyncio.run(self.known_finding_lines())
        violations = []
        seen = set()
        for m in merged["mismatches"]:
            if m["bucket"] in seen:
                continue
            seen.add(m["bucket"])
            if len(violations) >= max_violation_lines:
                continue
            path = core.write_replay(self.prop, m["bucket"], m)
            violations.append({"bucket": m["bucket"], "replay": path})
        ex = {
            "table_programs": merged["counters"].get("table_programs", 0),
            "random_programs": merged["counters"].get("random_programs", 0),
            "compile_rejected": merged["counters"].get("compile_rejected", 0),
            "stale_open_findings": stale,
            "distinct_violation_buckets": len(seen),
        }
        if extra:
            ex.update(extra)
        return core.finish(
            self.prop, tier, merged, self.rule, t0, extra=ex, known_lines=known_lines, violations=violations,
            assumptions=self.assumptions,
        )
