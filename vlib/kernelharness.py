"""In-memory harness for pyscript's Jupyter kernel (C19).

Everything here is independent of the code under test except `Session`, which wires a real
`Kernel` to in-memory streams:

* a reference ZMTP 3.0 frame encoder / strict decoder (canonical: short header iff body <= 255 bytes),
* `Wire`: one shared, ordered log of every chunk the kernel writes, per channel,
* `feed_fragments`: feeds an `asyncio.StreamReader` fragment by fragment and lets the consumer drain
  each fragment before the next one arrives, so that partial reads really happen,
* a Jupyter client: message construction, HMAC-SHA256 signing and verification.
"""

from __future__ import annotations

import asyncio
import hashlib
import hmac
import json
import logging
import struct

DELIM = b"<IDS|MSG>"
GREETING_LEN = 64

# ------------------------------------------------------------------------------------------
# reference ZMTP 3.0 framing
# ------------------------------------------------------------------------------------------

F_MORE, F_LONG, F_CMD = 1, 2, 4


def ref_frame(body, more=False, command=False, force_long=False):
    flags = (F_MORE if more else 0) | (F_CMD if command else 0)
    if len(body) > 255 or force_long:
        return bytes([flags | F_LONG]) + struct.pack(">Q", len(body)) + bytes(body)
    return bytes([flags, len(body)]) + bytes(body)


def ref_command_body(name, params):
    """name: bytes, params: [(bytes, bytes)]"""
    out = bytes([len(name)]) + name
    for k, v in params:
        out += bytes([len(k)]) + k + struct.pack(">L", len(v)) + v
    return out


class Layout:
    """Wire bytes plus the spans [start, end) of every frame header (flag byte + length prefix)."""

    def __init__(self):
        self.data = bytearray()
        self.headers = []  # (start, end, body_len)

    def add(self, body, more=False, command=False, force_long=False):
        fr = ref_frame(body, more, command, force_long)
        hdr = len(fr) - len(body)
        self.headers.append((len(self.data), len(self.data) + hdr, len(body)))
        self.data += fr

    def add_multipart(self, frames, force_long=False):
        for i, f in enumerate(frames):
            self.add(f, more=i < len(frames) - 1, force_long=force_long)

    def add_command(self, name, params, force_long=False):
        self.add(ref_command_body(name, params), command=True, force_long=force_long)


class DecodeError(Exception):
    pass


def ref_decode(data):
    """Strictly decode a byte string into items; returns (items, n_consumed).

    items: ("msg", [frames]) | ("cmd", name, [(k, v)]).  Incomplete trailing data is left unconsumed."""
    items = []
    pos = 0
    done = 0
    parts = []
    n = len(data)
    while True:
        if pos + 1 > n:
            break
        flags = data[pos]
        if flags & ~0x7:
            raise DecodeError(f"reserved flag bits set: {flags:#x} at {pos}")
        if flags & F_LONG:
            if pos + 9 > n:
                break
            ln = struct.unpack(">Q", bytes(data[pos + 1 : pos + 9]))[0]
            body_at = pos + 9
        else:
            if pos + 2 > n:
                break
            ln = data[pos + 1]
            body_at = pos + 2
        if ln > (1 << 40):
            raise DecodeError(f"absurd frame length {ln} at {pos}")
        if body_at + ln > n:
            break
        body = bytes(data[body_at : body_at + ln])
        pos = body_at + ln
        if flags & F_CMD:
            if flags & F_MORE:
                raise DecodeError("command frame with MORE flag")
            if parts:
                raise DecodeError("command frame inside a multipart message")
            if not body:
                raise DecodeError("empty command")
            nl = body[0]
            name = body[1 : 1 + nl]
            rest = body[1 + nl :]
            if len(name) != nl:
                raise DecodeError("truncated command name")
            params = []
            while rest:
                kl = rest[0]
                k = rest[1 : 1 + kl]
                if len(k) != kl or len(rest) < 1 + kl + 4:
                    raise DecodeError("truncated command property")
                vl = struct.unpack(">L", rest[1 + kl : 5 + kl])[0]
                v = rest[5 + kl : 5 + kl + vl]
                if len(v) != vl:
                    raise DecodeError("truncated command property value")
                rest = rest[5 + kl + vl :]
                params.append((bytes(k), bytes(v)))
            items.append(("cmd", bytes(name), params))
            done = pos
        else:
            parts.append(body)
            if not flags & F_MORE:
                items.append(("msg", parts))
                parts = []
                done = pos
    return items, done


def check_greeting(data):
    """The 64-byte ZMTP 3.0 NULL-mechanism greeting."""
    g = bytes(data[:GREETING_LEN])
    return (
        len(g) == GREETING_LEN
        and g[0] == 0xFF
        and g[9] == 0x7F
        and g[10] == 3
        and g[12:32] == b"NULL" + b"\x00" * 16
        and g[32] == 0
    )


def peer_greeting():
    return b"\xff" + b"\x00" * 8 + b"\x7f" + b"\x03\x00" + b"NULL" + b"\x00" * 16 + b"\x00" + b"\x00" * 31


# ------------------------------------------------------------------------------------------
# in-memory streams
# ------------------------------------------------------------------------------------------


class Wire:
    """Ordered log of everything written on any channel."""

    def __init__(self):
        self.chunks = []  # (channel, bytes)

    def channel_bytes(self, channel):
        return b"".join(c for ch, c in self.chunks if ch == channel)

    def channel_offsets(self, channel):
        """[(global chunk index, end offset within the channel's byte stream)]"""
        out = []
        off = 0
        for i, (ch, c) in enumerate(self.chunks):
            if ch == channel:
                off += len(c)
                out.append((i, off))
        return out


class FakeWriter:
    """The subset of asyncio.StreamWriter the kernel uses: write, drain, close."""

    def __init__(self, wire, channel, drain_yields=False):
        self.wire = wire
        self.channel = channel
        self.drain_yields = drain_yields
        self.closed = False
        self.writes_after_close = 0

    def write(self, data):
        if self.closed:
            self.writes_after_close += 1
        self.wire.chunks.append((self.channel, bytes(data)))

    async def drain(self):
        if self.drain_yields:
            await asyncio.sleep(0)

    def close(self):
        self.closed = True

    def is_closing(self):
        return self.closed

    async def wait_closed(self):
        return None


class CountingReader(asyncio.StreamReader):
    """StreamReader that counts reads which returned fewer bytes than asked for."""

    def __init__(self):
        super().__init__(limit=2**26)
        self.short_reads = 0
        self.reads = 0

    async def read(self, n=-1):
        data = await super().read(n)
        self.reads += 1
        if 0 < len(data) < n:
            self.short_reads += 1
        return data


def fragments(data, cuts):
    cuts = sorted({c for c in cuts if 0 < c < len(data)})
    out = []
    last = 0
    for c in cuts + [len(data)]:
        out.append(bytes(data[last:c]))
        last = c
    return [f for f in out if f] or [b""]


async def feed_fragments(reader, data, cuts, eof=False, spin=50):
    """Feed `data` cut at the given positions; after each fragment yield until the consumer has drained it."""
    for frag in fragments(data, cuts):
        if frag:
            reader.feed_data(frag)
        for _ in range(spin):
            await asyncio.sleep(0)
            if not reader._buffer:  # noqa: SLF001 - consumer has taken everything delivered so far
                break
    if eof:
        reader.feed_eof()


# ------------------------------------------------------------------------------------------
# Jupyter client side
# ------------------------------------------------------------------------------------------


def sign(key, frames):
    mac = hmac.new(key, digestmod=hashlib.sha256)
    for f in frames:
        mac.update(f)
    return mac.hexdigest().encode("ascii")


def jdump(obj, ascii_only=True):
    return json.dumps(obj, ensure_ascii=ascii_only).encode("utf-8")


def build_request(key, header, parent, metadata, content, identities, ascii_only=True):
    """Wire frames of a request exactly as jupyter_client's Session.serialize builds them."""
    signed = [jdump(header, ascii_only), jdump(parent, ascii_only), jdump(metadata, ascii_only), jdump(content, ascii_only)]
    return list(identities) + [DELIM, sign(key, signed)] + signed


def split_wire(frames):
    """-> (identities, signature, signed4, buffers) or None if the frame list is not a Jupyter message."""
    try:
        d = frames.index(DELIM)
    except ValueError:
        return None
    rest = frames[d + 1 :]
    if len(rest) < 5:
        return None
    return frames[:d], rest[0], rest[1:5], rest[5:]


def verify(key, frames):
    """Independent statement of authenticity: well-formed and HMAC over the four signed frames matches."""
    sp = split_wire(frames)
    if sp is None:
        return False
    _, sig, signed, _ = sp
    if not hmac.compare_digest(sign(key, signed), sig):
        return False
    try:
        return all(isinstance(json.loads(f.decode("utf-8")), dict) for f in signed)
    except (ValueError, UnicodeDecodeError):
        return False


def parse_message(key, frames):
    """Decode a message written by the kernel -> dict (never raises)."""
    sp = split_wire(frames)
    if sp is None:
        return {"malformed": True, "frames": [f[:40].hex() for f in frames]}
    ids, sig, signed, buffers = sp
    out = {"ids": [i.hex() for i in ids], "sig_ok": hmac.compare_digest(sign(key, signed), sig), "buffers": len(buffers)}
    try:
        out["header"], out["parent"], out["metadata"], out["content"] = (json.loads(f.decode("utf-8")) for f in signed)
    except (ValueError, UnicodeDecodeError):
        out["malformed"] = True
    return out


class Channel:
    """Incremental view of what the kernel wrote on one channel (after the greeting)."""

    def __init__(self, wire, name, key, greeting=True):
        self.wire = wire
        self.name = name
        self.key = key
        self.greeting = greeting
        self.seen_items = 0
        self.error = None

    def items(self):
        """All decoded items so far: [(global chunk index at which the item was complete, item)]."""
        data = self.wire.channel_bytes(self.name)
        skip = GREETING_LEN if self.greeting else 0
        if len(data) < skip:
            return []
        try:
            items, _ = ref_decode(data[skip:])
        except DecodeError as e:
            self.error = str(e)
            return []
        # end offset of each item: re-encode canonical == what was consumed? compute by re-decoding prefixes
        ends = []
        pos = skip
        for it in items:
            pos = _item_end(data, pos)
            ends.append(pos)
        offs = self.wire.channel_offsets(self.name)
        out = []
        for it, end in zip(items, ends):
            idx = next((gi for gi, off in offs if off >= end), -1)
            out.append((idx, it))
        return out

    def new_messages(self):
        its = self.items()
        new = its[self.seen_items :]
        self.seen_items = len(its)
        return [(gi, parse_message(self.key, it[1])) for gi, it in new if it[0] == "msg"]

    def greeting_ok(self):
        return check_greeting(self.wire.channel_bytes(self.name))

    def commands(self):
        return [it for _, it in self.items() if it[0] == "cmd"]


def _item_end(data, pos):
    """End offset of the item (whole multipart message or command) that starts at pos."""
    while True:
        flags = data[pos]
        if flags & F_LONG:
            ln = struct.unpack(">Q", bytes(data[pos + 1 : pos + 9]))[0]
            pos += 9 + ln
        else:
            pos += 2 + data[pos + 1]
        if flags & F_CMD or not flags & F_MORE:
            return pos


# ------------------------------------------------------------------------------------------
# a kernel session on in-memory streams
# ------------------------------------------------------------------------------------------


class Session:
    """A Kernel created the way __init__.jupyter_kernel_start does, with in-memory shell / iopub streams.

    mode "listen": the kernel's own shell_listen coroutine (incl. ZMTP handshake) reads the shell stream;
    mode "handler": the harness reads each message with ZmqSocket.recv_multipart and passes it to
    Kernel.shell_handler, treating an exception as "request dropped" (what a listener that survives would do).
    """

    def __init__(self, key, mode="handler", drain_yields=False, n_iopub=1):
        self.key = key.encode("utf-8")
        self.mode = mode
        self.drain_yields = drain_yields
        self.n_iopub = n_iopub
        self.wire = Wire()
        self.tasks = []
        self.handler_errors = []
        self.dead = False  # the harness-side reader got stuck: nothing more can be delivered

    async def __aenter__(self):
        from custom_components.pyscript.eval import AstEval
        from custom_components.pyscript.function import Function
        from custom_components.pyscript.global_ctx import GlobalContext, GlobalContextMgr
        from custom_components.pyscript.jupyter_kernel import Kernel, ZmqSocket

        logging.disable(logging.NOTSET)
        lg = logging.getLogger("custom_components.pyscript")
        self._old_log = (lg.level, lg.propagate)
        lg.setLevel(logging.DEBUG)  # print() is documented as log.debug(): the user enables debug logging
        lg.propagate = False
        if not any(isinstance(hd, logging.NullHandler) for hd in lg.handlers):
            lg.addHandler(logging.NullHandler())  # keep the kernel's error logging off stderr
        self._lg = lg

        name = GlobalContextMgr.new_name("jupyter_")
        self.name = name
        self.global_ctx = GlobalContext(name, global_sym_table={"__name__": name}, manager=GlobalContextMgr)
        self.global_ctx.set_auto_start(True)
        GlobalContextMgr.set(name, self.global_ctx)
        self.ast_ctx = AstEval(name, self.global_ctx)
        Function.install_ast_funcs(self.ast_ctx)
        config = {"key": self.key.decode("utf-8"), "signature_scheme": "hmac-sha256", "transport": "tcp", "ip": "127.0.0.1",
                  "state_var": "pyscript.jupyter_ports_x", "no_connect_timeout": 30}
        self.kernel = Kernel(config, self.ast_ctx, self.global_ctx, name)
        # session_start() minus the TCP servers and the no-connection timer
        self.ast_ctx.add_logger_handler(self.kernel.console)
        hk = asyncio.create_task(self.kernel.housekeep_run())
        self.kernel.tasks["housekeep"] = {hk}
        self.tasks.append(hk)

        self.iopub = []
        for i in range(self.n_iopub):
            ch = f"iopub{i}"
            rd = asyncio.StreamReader()
            wr = FakeWriter(self.wire, ch, self.drain_yields)
            t = asyncio.create_task(self.kernel.iopub_listen(rd, wr))
            self.tasks.append(t)
            lay = Layout()
            lay.add_command(b"READY", [(b"Socket-Type", b"SUB")])
            await feed_fragments(rd, peer_greeting() + bytes(lay.data), [5, 10, 11, 40, 64, 66])
            self.iopub.append((rd, wr, Channel(self.wire, ch, self.key)))
        self.shell_reader = CountingReader()
        self.shell_writer = FakeWriter(self.wire, "shell", self.drain_yields)
        self.shell = Channel(self.wire, "shell", self.key, greeting=self.mode == "listen")
        self.shell_task = None
        if self.mode == "listen":
            self.shell_task = asyncio.create_task(self.kernel.shell_listen(self.shell_reader, self.shell_writer))
            self.tasks.append(self.shell_task)
            lay = Layout()
            lay.add_command(b"READY", [(b"Socket-Type", b"DEALER"), (b"Identity", b"")])
            await feed_fragments(self.shell_reader, peer_greeting() + bytes(lay.data), [1, 10, 11, 63, 65])
        else:
            self.shell_sock = ZmqSocket(self.shell_reader, self.shell_writer, "ROUTER")
        await self.quiesce()
        self.sym0 = set(self.global_ctx.global_sym_table)
        return self

    async def __aexit__(self, *exc):
        from custom_components.pyscript.global_ctx import GlobalContextMgr

        for t in self.tasks:
            t.cancel()
        for t in self.tasks:
            try:
                await t
            except BaseException:  # noqa: BLE001
                pass
        try:
            self.ast_ctx.remove_logger_handler(self.kernel.console)
            GlobalContextMgr.delete(self.name)
        except Exception:  # noqa: BLE001
            pass
        self._lg.setLevel(self._old_log[0])
        self._lg.propagate = self._old_log[1]
        logging.disable(logging.CRITICAL)
        return False

    def listener_alive(self):
        return self.shell_task is not None and not self.shell_task.done()

    async def quiesce(self, max_spins=3000, stable=6):
        """Yield until nothing moves any more: queues empty, no new bytes written, readers drained or dead."""
        calm = 0
        last = len(self.wire.chunks)
        for _ in range(max_spins):
            await asyncio.sleep(0)
            busy = (
                not self.kernel.housekeep_q.empty()
                or len(self.wire.chunks) != last
                or (bool(self.shell_reader._buffer) and self.mode == "listen" and self.listener_alive())  # noqa: SLF001
            )
            last = len(self.wire.chunks)
            calm = 0 if busy else calm + 1
            if calm >= stable:
                return True
        return False

    async def deliver(self, wire_bytes, cuts, timeout=5.0):
        """Deliver one request's bytes in fragments; returns a status string.

        Hangs are detected by spinning the loop (nothing in the kernel needs wall-clock time), not by waiting."""
        if self.mode == "listen":
            await feed_fragments(self.shell_reader, wire_bytes, cuts)
            ok = await self.quiesce()
            return "ok" if ok else "no-quiescence"
        recv = asyncio.create_task(self.shell_sock.recv_multipart())
        await feed_fragments(self.shell_reader, wire_bytes, cuts)
        for _ in range(300):
            if recv.done():
                break
            await asyncio.sleep(0)
        if not recv.done():
            recv.cancel()
            try:
                await recv
            except BaseException:  # noqa: BLE001
                pass
            self.dead = True
            return "recv-timeout"
        try:
            msg = recv.result()
        except Exception as e:  # noqa: BLE001
            self.dead = True
            return "recv-exception:" + type(e).__name__
        status = "ok"
        try:
            await asyncio.wait_for(self.kernel.shell_handler(self.shell_sock, msg), timeout)
        except asyncio.TimeoutError:
            status = "handler-timeout"
            self.dead = True
        except Exception as e:  # noqa: BLE001 - a surviving listener would log and drop the request
            self.handler_errors.append(type(e).__name__)
            status = "dropped:" + type(e).__name__
        ok = await self.quiesce()
        return status if ok else status + "+no-quiescence"

    def user_globals(self):
        out = {}
        for k, v in self.global_ctx.global_sym_table.items():
            if k in self.sym0 or (k.startswith("__") and k.endswith("__")):
                continue
            out[k] = repr(v)
        return out
