"""Virtual-clock asyncio event loop: the harness owns every wake-up.

time() is an integer microsecond counter.  When the loop would sleep for t seconds and no
run_in_executor job is in flight, the counter advances by t instead of sleeping.  While executor
jobs are running the loop polls real I/O without advancing.  Every loop iteration that ran
callbacks costs 1 us of virtual time.  If the loop would block for ever with nothing scheduled and
nothing in flight the case is aborted (HarnessDeadlock) - never a verdict.
"""

from __future__ import annotations

import asyncio
import math
import selectors
import time as _time


class HarnessDeadlock(BaseException):
    pass


class _VSelector:
    def __init__(self, real, loop):
        self._real = real
        self._loop = loop

    def select(self, timeout=None):
        loop = self._loop
        ev = self._real.select(0)
        if ev:
            return ev
        if loop._v_inflight > 0:
            # real work is happening on another thread: wait for it in real time, do not advance
            t = 0.02 if timeout is None else min(max(timeout, 0), 0.02)
            t0 = _time.monotonic()
            ev = self._real.select(t)
            loop._v_real_wait += _time.monotonic() - t0
            if loop._v_real_wait > loop._v_real_wait_limit:
                raise HarnessDeadlock("executor job did not finish within the real-time limit")
            return ev
        if timeout is None:
            if loop._v_allow_block:
                return self._real.select(0.05)
            raise HarnessDeadlock("event loop would block for ever: nothing scheduled, nothing in flight")
        if timeout > 0:
            loop._v_us += int(math.ceil(timeout * 1_000_000))
        return []

    def __getattr__(self, name):
        return getattr(self._real, name)


class VirtualLoop(asyncio.SelectorEventLoop):
    def __init__(self):
        real = selectors.DefaultSelector()
        super().__init__(real)
        self._v_us = 1_000_000_000  # start at 1000 s so that monotonic stamps are never 0/falsy
        self._v_inflight = 0
        self._v_real_wait = 0.0
        self._v_real_wait_limit = 60.0
        self._v_allow_block = False
        self._selector = _VSelector(real, self)

    def time(self):
        return self._v_us / 1_000_000

    def vnow_us(self):
        return self._v_us

    def _run_once(self):
        had = bool(self._ready) or bool(self._scheduled)
        super()._run_once()
        if had:
            self._v_us += 1

    async def shutdown_default_executor(self, timeout=None):
        """Do not wait for idle worker threads to be joined (costs ~0.3 s of real time per case)."""
        self._executor_shutdown_called = True
        ex = self._default_executor
        if ex is not None:
            ex.shutdown(wait=False, cancel_futures=True)

    def run_in_executor(self, executor, func, *args):
        fut = super().run_in_executor(executor, func, *args)
        self._v_inflight += 1

        def done(_):
            self._v_inflight -= 1

        fut.add_done_callback(done)
        return fut


class VTime:
    """Replacement for the `time` module inside pyscript modules (monotonic == loop time)."""

    def __init__(self, loop):
        self._loop = loop

    def monotonic(self):
        return self._loop.time()

    def time(self):
        return _time.time()

    def __getattr__(self, name):
        return getattr(_time, name)
