"""Generic driver for model-based integration checks (generated case -> run real code -> compare with model)."""

from __future__ import annotations

import json
import time
import traceback

from . import core
from .vloop import HarnessDeadlock


class ModelCheck:
    """Subclass and provide: prop, rule, gen(R)->case(dict with list 'ops'), run(case)->dict with keys
    expected, observed, nontrivial(bool), classes(list[str]); optional attribute(case, result)->finding id|None,
    bucket(case, result)->str, exhaustive_cases(tier)->list[case]."""

    prop = "C00"
    rule = ""
    assumptions = []
    shrink_key = "ops"
    level = "exploration"

    def n_random(self, tier):
        return {"quick": 600, "thorough": 20000}[tier]

    def exhaustive_cases(self, tier):
        return []

    def regress_cases(self):
        return []

    def gen(self, R):
        raise NotImplementedError

    def run(self, case):
        raise NotImplementedError

    def bucket(self, case, result):
        return "mismatch"

    def attribute(self, case, result):
        return None

    def mismatch(self, result):
        return result["expected"] != result["observed"]

    def valid(self, case):
        """Generator invariants that a shrunk case must still satisfy."""
        return True

    # ------------------------------------------------------------------
    def safe_run(self, case, res):
        try:
            return self.run(case)
        except HarnessDeadlock as e:
            res.count("harness_deadlock")
            res.errors.append(f"deadlock on case {json.dumps(case, default=repr)[:500]}: {e}")
            return None
        except Exception:  # harness bug: never a verdict
            res.count("harness_exception")
            res.errors.append(f"harness exception on case {json.dumps(case, default=repr)[:500]}: {traceback.format_exc()[-1500:]}")
            return None

    def shrink(self, case, bucket, res):
        key = self.shrink_key
        if key not in case or not isinstance(case[key], list) or len(case[key]) <= 1:
            return case
        t_end = time.time() + 25

        def pred(items):
            if time.time() > t_end:
                return False
            c = dict(case)
            c[key] = list(items)
            if not self.valid(c):
                return False
            try:
                r = self.run(c)
            except BaseException:  # noqa: BLE001
                return False
            return bool(r) and self.mismatch(r) and self.bucket(c, r) == bucket and not self.attribute(c, r)

        small = core.ddmin(case[key], pred, max_tests=120)
        c = dict(case)
        c[key] = small
        return c

    def check_case(self, res, case, klass):
        if klass == "random" and not self.valid(case):
            # the generator is meant to construct valid cases only; a rejected one is counted, never run
            res.count("generated_invalid")
            return
        r = self.safe_run(case, res)
        if r is None:
            return
        res.case(case, bool(r.get("nontrivial")))
        res.klass(klass)
        for k in r.get("classes", []):
            res.klass(k)
        if not self.mismatch(r):
            return
        fid = self.attribute(case, r)
        if fid:
            res.known(fid)
            return
        b = self.bucket(case, r)
        if len(res.mismatches) < 10:
            small = self.shrink(case, b, res)
            if small is not case:
                r2 = self.safe_run(small, res)
                if r2 and self.mismatch(r2) and not self.attribute(small, r2):
                    case, r = small, r2
        res.mismatch(b, case, expected=r["expected"], observed=r["observed"], detail=r.get("detail"))

    def run_shard(self, tier, shard_i, shard_n):
        res = core.ShardResult()
        if shard_i == 0:
            for c in self.regress_cases():
                self.check_case(res, c, "regress")
        ex = self.exhaustive_cases(tier)
        for idx in range(shard_i, len(ex), shard_n):
            if res.counters.get("mismatch_total", 0) >= 100:
                break
            self.check_case(res, ex[idx], "exhaustive")
            res.count("exhaustive_cases")
        n = self.n_random(tier) // shard_n
        pending = []

        def casefn(R):
            pending.append(self.gen(R))

        done = 0
        b = 0
        while done < n:
            k = min(100, n - done)
            pending.clear()
            core.run_hypothesis(casefn, k, core.seed() * 100003 + shard_i * 1009 + b)
            for c in list(pending):
                if res.counters.get("mismatch_total", 0) >= 100:
                    break
                self.check_case(res, c, "random")
            done += k
            b += 1
        res.count("random_cases", done)
        return res

    # ------------------------------------------------------------------
    def known_lines(self):
        """Run each open finding's reproducer case; a finding whose reproducer still deviates is printed."""
        lines, stale = [], []
        for f in core.open_findings(self.prop):
            case = f.get("reproducer_case")
            if case is None:
                lines.append(f"KNOWN-FINDING: property={self.prop} {f['id']}: {f['description']}")
                continue
            try:
                r = self.run(case)
            except BaseException as e:  # noqa: BLE001
                stale.append(f"{f['id']}: harness error {e!r}")
                continue
            if r and self.mismatch(r):
                lines.append(f"KNOWN-FINDING: property={self.prop} {f['id']}: {f['description']}")
            else:
                stale.append(f["id"])
        return lines, stale

    def fixed_regress(self):
        out = []
        for f in core.load_findings(self.prop):
            if str(f.get("status", "")).startswith("fixed") and f.get("reproducer_case") is not None:
                out.append(f["reproducer_case"])
        return out

    def replay(self, path):
        with open(path) as fh:
            payload = json.load(fh)
        case = payload["case"]
        r = self.run(case)
        print(json.dumps(case, indent=1, default=repr)[:4000])
        print("expected:", json.dumps(r["expected"], default=repr)[:3000])
        print("observed:", json.dumps(r["observed"], default=repr)[:3000])
        if self.mismatch(r) and not self.attribute(case, r):
            print(f"VIOLATION property={self.prop} replay={path}")
            return 1
        print("no (unattributed) disagreement")
        return 0

    def main(self, tier, extra=None, timeout_s=3000, hashseeds=None):
        t0 = time.time()
        parts, errors = core.run_shards(self.prop, tier, core.NCPU, timeout_s=timeout_s, hashseeds=hashseeds)
        merged = core.merge_results(parts)
        merged["errors"].extend(errors)
        known_lines, stale = self.known_lines()
        violations = []
        seen = set()
        for m in merged["mismatches"]:
            if m["bucket"] in seen:
                continue
            seen.add(m["bucket"])
            if len(violations) >= 10:
                continue
            path = core.write_replay(self.prop, m["bucket"], m)
            violations.append({"bucket": m["bucket"], "replay": path})
        ex = {
            "exhaustive_cases": merged["counters"].get("exhaustive_cases", 0),
            "random_cases": merged["counters"].get("random_cases", 0),
            "stale_open_findings": stale,
            "distinct_violation_buckets": len(seen),
        }
        if extra:
            ex.update(extra)
        return core.finish(
            self.prop, tier, merged, self.rule, t0, level=self.level, extra=ex, known_lines=known_lines,
            violations=violations, assumptions=self.assumptions,
        )
