"""L3 harness: the whole pyscript integration in a Home Assistant test instance on a virtual clock."""

from __future__ import annotations

import asyncio
import contextlib
import datetime as dt
import logging
import os
import shutil
import sys
import tempfile
from unittest.mock import patch

from .core import REPO
from .vloop import HarnessDeadlock, VirtualLoop, VTime

if REPO not in sys.path:
    sys.path.insert(0, REPO)

BASE_DT = dt.datetime(2024, 6, 12, 10, 0, 0)  # virtual "now" at loop time 1000 s (a Wednesday)
BASE_LOOP_T = 1000.0


def reset_class_state():
    """Fresh class-level tables so that no case depends on an earlier one."""
    from custom_components.pyscript.event import Event
    from custom_components.pyscript.function import Function
    from custom_components.pyscript.global_ctx import GlobalContextMgr
    from custom_components.pyscript.mqtt import Mqtt
    from custom_components.pyscript.state import State
    from custom_components.pyscript.webhook import Webhook

    Function.hass = None
    Function.unique_task2name = {}
    Function.unique_name2task = {}
    Function.task2context = {}
    Function.our_tasks = set()
    Function.task2cb = {}
    Function.functions = {}
    Function.ast_functions = {}
    Function.task_reaper = None
    Function.task_reaper_q = None
    Function.task_waiter = None
    Function.task_waiter_q = None
    Function.service_cnt = {}
    Function.service2global_ctx = {}
    State.notify = {}
    State.notify_var_last = {}
    State.persisted_vars = {}
    State.service2args = {}
    State.pyscript_config = {}
    Event.notify = {}
    Event.notify_remove = {}
    for cls in (Mqtt, Webhook):
        for attr in ("notify", "notify_remove"):
            if hasattr(cls, attr):
                setattr(cls, attr, {})
    GlobalContextMgr.contexts = {}
    GlobalContextMgr.name_seq = 0
    try:
        from custom_components.pyscript.decorators.webhook import WebhookTriggerDecorator

        if hasattr(WebhookTriggerDecorator, "_started"):
            WebhookTriggerDecorator._started = {}
    except ImportError:
        pass


class LogCapture(logging.Handler):
    def __init__(self):
        super().__init__(level=logging.WARNING)
        self.records = []

    def emit(self, record):
        try:
            msg = record.getMessage()
        except Exception:  # noqa: BLE001
            msg = str(record.msg)
        self.records.append((record.name, record.levelname, msg))


class Integ:
    """One pyscript integration instance.  Use: `async with Integ(files, legacy=...) as it:`"""

    def __init__(self, files, legacy=False, config_extra=None, base_dt=BASE_DT, tz=None, autostart=True, initial_states=None, dst_clock=False):
        self.files = dict(files)  # relative path under pyscript/ -> source
        self.legacy = legacy
        self.config = {"pyscript": {"allow_all_imports": False, "legacy_decorators": bool(legacy)}}
        if config_extra:
            self.config["pyscript"].update(config_extra)
        self.base_dt = base_dt
        self.records = []
        self.loop_exceptions = []
        self.autostart = autostart
        self._stack = None
        self.hass = None
        self.dir = None
        self.log = LogCapture()
        self.ha_log = LogCapture()  # what Home Assistant's core logs (an exception that escaped from pyscript into a service call)
        self.tz = tz
        self.initial_states = initial_states or {}
        self.dst_clock = dst_clock

    # ------------------------------------------------------------------ clock
    def vnow(self):
        """Virtual naive local datetime.  With dst_clock the wall clock is derived from a virtual UTC instant
        through zoneinfo, so it jumps at daylight-saving transitions exactly as a real one does."""
        loop = asyncio.get_running_loop()
        elapsed = dt.timedelta(microseconds=loop.vnow_us() - int(BASE_LOOP_T * 1_000_000))
        if self.dst_clock:
            import zoneinfo

            z = zoneinfo.ZoneInfo(self.tz)
            base_utc = self.base_dt.replace(tzinfo=z).astimezone(dt.timezone.utc)
            return (base_utc + elapsed).astimezone(z).replace(tzinfo=None)
        return self.base_dt + elapsed

    def vt(self):
        """Virtual seconds since the base instant."""
        loop = asyncio.get_running_loop()
        return (loop.vnow_us() - int(BASE_LOOP_T * 1_000_000)) / 1_000_000

    # ------------------------------------------------------------------ files
    def write_files(self, files=None):
        root = os.path.join(self.dir, "pyscript")
        for rel, src in (files if files is not None else self.files).items():
            path = os.path.join(root, rel)
            os.makedirs(os.path.dirname(path), exist_ok=True)
            with open(path, "w", encoding="utf-8") as f:
                f.write(src)

    # ------------------------------------------------------------------ life cycle
    async def __aenter__(self):
        from homeassistant.setup import async_setup_component
        from pytest_homeassistant_custom_component.common import async_test_home_assistant

        import custom_components.pyscript as pys
        from custom_components.pyscript import trigger as trig_mod
        from custom_components.pyscript.decorators import timing as timing_mod
        from custom_components.pyscript.function import Function
        from homeassistant import loader

        loop = asyncio.get_running_loop()
        assert isinstance(loop, VirtualLoop), "Integ must run on a VirtualLoop"
        reset_class_state()
        # available to file preambles during the initial load as well
        Function.functions["vrec"] = self._vrec
        Function.functions["vnow"] = self.vt
        self.dir = tempfile.mkdtemp(prefix="verif-l3-")
        os.makedirs(os.path.join(self.dir, "pyscript"), exist_ok=True)
        self.write_files()
        st = contextlib.AsyncExitStack()
        self._stack = st
        try:
            self.hass = await st.enter_async_context(async_test_home_assistant(config_dir=self.dir))
            self.hass.data.pop(loader.DATA_CUSTOM_COMPONENTS, None)
            if self.tz:
                await self.hass.config.async_set_time_zone(self.tz)
            vtime = VTime(loop)
            st.enter_context(patch.object(trig_mod, "dt_now", self.vnow))
            st.enter_context(patch.object(trig_mod, "time", vtime))
            st.enter_context(patch.object(timing_mod, "time", vtime))
            st.enter_context(patch("homeassistant.config.load_yaml_config_file", side_effect=lambda *a, **k: self.config))
            st.enter_context(patch("custom_components.pyscript.watchdog_start", return_value=None))
            self._prev_handler = loop.get_exception_handler()

            def on_loop_exc(lp, context):
                self.loop_exceptions.append(str(context.get("exception") or context.get("message")))

            loop.set_exception_handler(on_loop_exc)
            plog = logging.getLogger("custom_components.pyscript")
            plog.addHandler(self.log)
            self._plog = plog
            logging.getLogger("homeassistant.core").addHandler(self.ha_log)
            for ent, (val, attrs) in self.initial_states.items():
                self.hass.states.async_set(ent, val, attrs or {})
            ok = await async_setup_component(self.hass, "pyscript", self.config)
            if not ok:
                raise RuntimeError("pyscript set-up failed")
            await self.hass.async_block_till_done()
            Function.functions["vrec"] = self._vrec
            Function.functions["vnow"] = self.vt
            if self.autostart:
                await self.start()
        except BaseException:
            await self._cleanup()
            raise
        return self

    async def start(self):
        from homeassistant.const import EVENT_HOMEASSISTANT_STARTED

        self.hass.bus.async_fire(EVENT_HOMEASSISTANT_STARTED)
        await self.settle()

    def _vrec(self, *args, **kwargs):
        # snapshot mutable arguments at record time
        import copy

        try:
            args = copy.deepcopy(args)
            kwargs = copy.deepcopy(kwargs)
        except Exception:  # noqa: BLE001 - uncopyable objects (tasks, contexts) are kept by reference
            pass
        self.records.append((round(self.vt(), 6), args, kwargs))

    async def settle(self, rounds=3):
        """Let everything that is runnable *now* run (no virtual time passes beyond loop-iteration ticks)."""
        for _ in range(rounds):
            await self.hass.async_block_till_done()
            for _ in range(5):
                await asyncio.sleep(0)

    async def spin(self, n=20):
        """Let runnable callbacks run without waiting for pending Home Assistant tasks (no virtual time passes
        beyond loop-iteration ticks).  Use when runs are expected to be sleeping across the step."""
        for _ in range(n):
            await asyncio.sleep(0)

    async def sleep_spin(self, vt_target, n=20):
        d = vt_target - self.vt()
        if d > 0:
            await asyncio.sleep(d)
        await self.spin(n)

    async def sleep(self, seconds):
        await asyncio.sleep(seconds)
        await self.settle(1)

    async def sleep_until(self, vt_target):
        d = vt_target - self.vt()
        if d > 0:
            await asyncio.sleep(d)
        await self.settle(1)

    async def reload(self, global_ctx=None):
        data = {} if global_ctx is None else {"global_ctx": global_ctx}
        await self.hass.services.async_call("pyscript", "reload", data, blocking=True)
        await self.settle()

    async def unload(self):
        entries = self.hass.config_entries.async_entries("pyscript")
        for e in entries:
            await self.hass.config_entries.async_unload(e.entry_id)
        await self.settle()

    async def _cleanup(self):
        with contextlib.suppress(Exception):
            if self._plog:
                self._plog.removeHandler(self.log)
            logging.getLogger("homeassistant.core").removeHandler(self.ha_log)
        try:
            if self.hass is not None:
                with contextlib.suppress(Exception):
                    await self.hass.async_stop(force=True)
        finally:
            with contextlib.suppress(Exception):
                await self._stack.aclose()
            with contextlib.suppress(Exception):
                asyncio.get_running_loop().set_exception_handler(None)
            shutil.rmtree(self.dir, ignore_errors=True)

    _plog = None

    async def __aexit__(self, *exc):
        await self._cleanup()
        return False

    # ------------------------------------------------------------------ helpers
    def set_state(self, entity, value, attrs=None, context=None):
        self.hass.states.async_set(entity, value, attrs or {}, context=context)

    def remove_state(self, entity):
        return self.hass.states.async_remove(entity)

    def fire(self, event_type, data=None, context=None):
        self.hass.bus.async_fire(event_type, data or {}, context=context)

    def errors(self):
        return [r for r in self.log.records if r[1] in ("ERROR", "CRITICAL")]

    def ha_errors(self):
        return [r for r in self.ha_log.records if r[1] in ("ERROR", "CRITICAL")]


def run_case(coro_fn, *args, timeout_real=120.0, **kwargs):
    """Run `await coro_fn(*args)` on a fresh VirtualLoop; HarnessDeadlock propagates."""
    import threading

    async def main():
        try:
            return await coro_fn(*args, **kwargs)
        finally:
            # runner shutdown (default executor join, async generators) uses helper threads
            asyncio.get_running_loop()._v_allow_block = True

    return asyncio.run(main(), loop_factory=VirtualLoop)
