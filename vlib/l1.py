"""L1 harness: the bare pyscript interpreter against CPython on the same source text."""

from __future__ import annotations

import asyncio
import contextlib
import logging
import os
import shutil
import sys
import tempfile

from .core import REPO

if REPO not in sys.path:
    sys.path.insert(0, REPO)

logging.disable(logging.CRITICAL)


@contextlib.asynccontextmanager
async def bare_hass(allow_all_imports=False, config_dir=None):
    """A Home Assistant test instance with pyscript's class-level singletons initialised
    the way tests/test_unit_eval.py does it (no integration set-up)."""
    from pytest_homeassistant_custom_component.common import MockConfigEntry, async_test_home_assistant

    from custom_components.pyscript import DecoratorRegistry
    from custom_components.pyscript.const import CONF_ALLOW_ALL_IMPORTS, CONFIG_ENTRY, DOMAIN
    from custom_components.pyscript.function import Function
    from custom_components.pyscript.global_ctx import GlobalContextMgr
    from custom_components.pyscript.state import State
    from custom_components.pyscript.trigger import TrigTime

    own = config_dir is None
    if own:
        config_dir = tempfile.mkdtemp(prefix="verif-l1-")
    try:
        async with async_test_home_assistant(config_dir=config_dir) as hass:
            hass.data[DOMAIN] = {
                CONFIG_ENTRY: MockConfigEntry(domain=DOMAIN, data={CONF_ALLOW_ALL_IMPORTS: allow_all_imports})
            }
            Function.hass = None
            Function.task_reaper = None
            Function.task_waiter = None
            Function.init(hass)
            State.init(hass)
            State.register_functions()
            GlobalContextMgr.init()
            TrigTime.init(hass)
            DecoratorRegistry.init(hass)
            try:
                yield hass
            finally:
                await Function.waiter_sync()
                await Function.waiter_stop()
                await Function.reaper_stop()
                await hass.async_stop(force=True)
    finally:
        if own:
            shutil.rmtree(config_dir, ignore_errors=True)


class TraceLimit(BaseException):
    """The tracer was called more often than any generated terminating program can: treated as non-termination."""


class CaseTimeout(BaseException):
    """Raised by the per-case interval timer (main thread only)."""


@contextlib.contextmanager
def time_limit(seconds, sticky_filename=None):
    """Raise CaseTimeout in the main thread after `seconds`, and again every 0.25 s (generated programs may
    swallow it with a bare except or a jump in a finally block).  With sticky_filename, every further line
    executed in frames of that file raises as well, so a CPython reference run always unwinds."""
    import signal

    def handler(signum, frame):
        if sticky_filename is not None:
            def raiser(fr, event, arg):
                if fr.f_code.co_filename == sticky_filename and event in ("line", "call"):
                    raise CaseTimeout()
                return raiser

            sys.settrace(raiser)
            f = frame
            while f is not None:
                if f.f_code.co_filename == sticky_filename:
                    f.f_trace = raiser
                f = f.f_back
        raise CaseTimeout()

    old = signal.signal(signal.SIGALRM, handler)
    signal.setitimer(signal.ITIMER_REAL, seconds, 0.25)
    try:
        yield
    finally:
        signal.setitimer(signal.ITIMER_REAL, 0)
        signal.signal(signal.SIGALRM, old)
        if sticky_filename is not None:
            sys.settrace(None)


_ctx_seq = [0]


async def run_pyscript(src, injected=None, name=None, timeout=10.0):
    """Execute `src` as a pyscript file-like unit; return (globals_dict, exception or None)."""
    from custom_components.pyscript.eval import AstEval
    from custom_components.pyscript.function import Function
    from custom_components.pyscript.global_ctx import GlobalContext, GlobalContextMgr

    _ctx_seq[0] += 1
    name = name or f"t{_ctx_seq[0]}"
    gsym = dict(injected or {})
    global_ctx = GlobalContext(name, global_sym_table=gsym, manager=GlobalContextMgr)
    ast_ctx = AstEval(name, global_ctx=global_ctx)
    Function.install_ast_funcs(ast_ctx)
    exc = None
    try:
        ast_ctx.parse(src)
        with time_limit(timeout):
            await ast_ctx.eval()
    except BaseException as e:  # noqa: BLE001 - the property compares exception types
        if isinstance(e, (KeyboardInterrupt, SystemExit, asyncio.CancelledError, CaseTimeout)):
            raise
        if isinstance(e, TraceLimit):
            raise CaseTimeout() from None
        exc = e
    return global_ctx.global_sym_table, exc, global_ctx


def run_cpython(src, injected=None, filename="<verif>", cpython_timeout=2.0):
    g = dict(injected or {})
    g["__builtins__"] = __builtins__ if isinstance(__builtins__, dict) else __builtins__.__dict__
    exc = None
    try:
        code = compile(src, filename, "exec")
    except (SyntaxError, ValueError, RecursionError, MemoryError, OverflowError) as e:
        return None, e, False
    try:
        with time_limit(cpython_timeout, sticky_filename=filename):
            exec(code, g)  # noqa: S102
    except BaseException as e:  # noqa: BLE001
        if isinstance(e, (KeyboardInterrupt, SystemExit, CaseTimeout)):
            raise
        if isinstance(e, TraceLimit):
            raise CaseTimeout() from None
        exc = e
    return g, exc, True


# ---------------------------------------------------------------------------
# canonical forms
# ---------------------------------------------------------------------------


def canon(v, depth=0):
    """Structural canonical form: type-sensitive, order-insensitive for sets."""
    if depth > 12:
        return "<deep>"
    t = type(v)
    if t is float:
        return ("float", repr(v))
    if t is complex:
        return ("complex", repr(v))
    if t in (int, bool, str, bytes, type(None)):
        return (t.__name__, repr(v))
    if t in (list, tuple):
        return (t.__name__, tuple(canon(x, depth + 1) for x in v))
    if t in (set, frozenset):
        return (t.__name__, tuple(sorted((canon(x, depth + 1) for x in v), key=repr)))
    if t is dict:
        return ("dict", tuple((canon(k, depth + 1), canon(x, depth + 1)) for k, x in v.items()))
    if t is range or t is slice:
        return (t.__name__, repr(v))
    if isinstance(v, BaseException):
        return ("exc", type(v).__name__)
    if isinstance(v, type):
        return ("type", v.__name__)
    if callable(v) or t.__name__ in ("EvalFunc", "EvalFuncVar", "EvalFuncVarClassInst"):
        return ("callable",)
    return ("obj", t.__name__)


def alias_partition(names_values):
    """Partition of names by identity of their mutable values."""
    groups = {}
    for name, v in names_values:
        if isinstance(v, (list, dict, set, bytearray)):
            groups.setdefault(id(v), []).append(name)
    return sorted(tuple(sorted(g)) for g in groups.values() if len(g) > 1)


def exc_class(e):
    if e is None:
        return None
    n = type(e).__name__
    if n in ("NameError", "UnboundLocalError"):
        return "NameError*"
    return n


SKIP_GLOBALS = {"__builtins__", "__annotations__", "__name__", "__doc__", "__package__", "__loader__", "__spec__"}


def visible_globals(g, injected):
    out = []
    for k, v in g.items():
        if k in SKIP_GLOBALS or k in injected:
            continue
        if k.startswith("__") and k.endswith("__"):
            continue
        out.append((k, v))
    return out


class Tracer:
    """Side-effect recorder injected into both worlds."""

    class Boom(Exception):
        pass

    LIMIT = 3000

    def __init__(self):
        self.log = []

    def T(self, tag, value=None):
        if len(self.log) >= self.LIMIT:
            raise TraceLimit()
        self.log.append((tag, repr(canon(value))))
        return value

    def TX(self, tag):
        self.log.append((tag, "raise"))
        raise Tracer.Boom(tag)

    def injected(self):
        return {"T": self.T, "TX": self.TX, "Boom": Tracer.Boom}
